// C05 — eventx::ThreadPool and eventx::WorkThread: every accepted task runs exactly once on a worker
// (never the loop thread) unless cancelled / dropped by cleanup; completion callback exactly once on the loop
// thread after the body; status/cancel answers consistent with the history; pick order (priority, FIFO);
// live workers <= max; cleanup terminates; no data races.  Real worker threads, H4 schedule points, TSan/ASan.
#define VERIF_MAIN
#include "../common/verif.h"
#include <tbox/event/loop.h>
#include <tbox/eventx/thread_pool.h>
#include <tbox/eventx/work_thread.h>
#include <tbox/base/verif_hooks.h>
#include <thread>
#include <stdexcept>
#include <functional>
#include <atomic>
#include <memory>
#include <algorithm>

using namespace verif;
using tbox::event::Loop;
using tbox::eventx::ThreadPool;
using tbox::eventx::WorkThread;

namespace {
enum { CFG, SCHED, EXEC, STATUS, CANCEL, SNAP, OPEN, WAIT, PUMP, CLEANUP, INIT, QUIESCE, NOPS };
const int kMaxTasks = 400, kGates = 4;
const int kMinMax[][2] = {{0, 1}, {0, 3}, {1, 1}, {2, 2}, {1, 4}, {0, 8}};
const char *kPoints[] = {"thread_pool.after_pop", "thread_pool.pred_false", "thread_pool.cleanup_before_stop_flag", "thread_pool.worker_exit_decided",
                         "work_thread.after_pop", "work_thread.pred_false", "work_thread.cleanup_before_stop_flag"};
const int kNPoints = 7;

struct SchedEntry { unsigned permille = 0, delay_us = 0; };
SchedEntry g_sched[kNPoints];
std::atomic<uint64_t> g_sched_seed{1};
std::atomic<uint64_t> g_sched_hits{0};

void spin_us(unsigned us) {
  if (us == 0) { std::this_thread::yield(); return; }
  if (us >= 300) { std::this_thread::sleep_for(std::chrono::microseconds(us)); return; }
  auto end = std::chrono::steady_clock::now() + std::chrono::microseconds(us);
  while (std::chrono::steady_clock::now() < end) { }
}
// probe run at the schedule point inside ThreadPool::cleanup() that lies between "waiting tasks dropped" and "stop flag set"
std::function<void()> g_cleanup_probe;
void sched_hook(const char *name) {
  if (strcmp(name, "thread_pool.cleanup_before_stop_flag") == 0) { if (g_cleanup_probe) g_cleanup_probe(); }   // only the thread that calls cleanup() passes this point, so only it touches the probe
  static thread_local uint64_t st = 0;
  if (st == 0) st = g_sched_seed.fetch_add(0x9E3779B97F4A7C15ull) | 1;
  for (int i = 0; i < kNPoints; ++i) {
    if (strcmp(name, kPoints[i]) != 0) continue;
    st ^= st << 13; st ^= st >> 7; st ^= st << 17;
    if (g_sched[i].permille && (st % 1000) < g_sched[i].permille) { g_sched_hits++; spin_us(g_sched[i].delay_us); }
    return;
  }
}

struct TaskRec {
  tbox::cabinet::Token token;
  int prio = 0; bool has_cb = false; int epoch = 0; bool on_alt_loop = false;   // WorkThread: callback explicitly directed to a second loop
  uint64_t submit_stamp = 0;      // taken before execute() is called
  uint64_t accepted_stamp = 0;    // taken after execute() has returned (the task is certainly queued from here on)
  std::atomic<uint64_t> body_start{0}, body_end{0}, cb_stamp{0};
  std::atomic<int> body_count{0}, cb_count{0};
  std::atomic<bool> body_on_loop_thread{false}, cb_off_loop_thread{false};
  bool cancelled_ok = false;         // cancel() returned 0
  bool queued_at_cleanup = false;    // body had not started when cleanup() of its epoch was called
};

struct Shared {
  std::unique_ptr<TaskRec[]> t{new TaskRec[kMaxTasks]};
  int n = 0;
  std::atomic<uint64_t> stamp{0};
  std::atomic<bool> gate_open[kGates];
  std::atomic<bool> cleanup_started{false};
  std::atomic<int> running{0}, max_running{0};
  std::thread::id main_tid;
  std::atomic<bool> alt_ready{false}; std::thread::id alt_tid;   // second loop (own thread) for WorkThread::execute(.., .., loop)
  uint64_t next() { return stamp.fetch_add(1) + 1; }
};

// ---- adapters giving both classes one interface
struct PoolAdapter {
  static constexpr bool kIsPool = true;
  ThreadPool p;
  explicit PoolAdapter(Loop *l) : p(l) {}
  bool init(int mn, int mx) { return p.initialize(mn, mx); }
  tbox::cabinet::Token exec(std::function<void()> body, std::function<void()> cb, bool with_cb, int prio, Loop *) {
    return with_cb ? p.execute(std::move(body), std::move(cb), prio) : p.execute(std::move(body), prio); }
  int status(tbox::cabinet::Token t) { return (int)p.getTaskStatus(t); }
  int cancel(tbox::cabinet::Token t) { return p.cancel(t); }
  void cleanup() { p.cleanup(); }
  int thread_num() { return (int)p.snapshot().thread_num; }
  int waiting_num() { auto ss = p.snapshot(); int n = 0; for (size_t i = 0; i < THREAD_POOL_PRIO_SIZE; ++i) n += (int)ss.undo_task_num[i]; return n; }
};
struct WorkAdapter {
  static constexpr bool kIsPool = false;
  std::unique_ptr<WorkThread> w; Loop *loop;
  explicit WorkAdapter(Loop *l) : loop(l) {}
  bool init(int, int) { w.reset(new WorkThread(loop)); return true; }
  tbox::cabinet::Token exec(std::function<void()> body, std::function<void()> cb, bool with_cb, int, Loop *explicit_loop) {
    if (with_cb && explicit_loop) return w->execute(std::move(body), std::move(cb), explicit_loop);
    return with_cb ? w->execute(std::move(body), std::move(cb)) : w->execute(std::move(body)); }
  int status(tbox::cabinet::Token t) { return (int)w->getTaskStatus(t); }
  int cancel(tbox::cabinet::Token t) { return w->cancel(t); }
  void cleanup() { w->cleanup(); }
  int thread_num() { return 1; }
  int waiting_num() { return 0; }
};

template <class A>
std::string run_impl(const Scenario &s, CaseInfo &info) {
  for (auto &e : g_sched) e = SchedEntry();
  int mn = 0, mx = 1; uint64_t seed = 1; bool final_quiesce = false, try_zero = false;
  size_t first = 0;
  for (auto &op : s.ops) {
    if (op.code == CFG) { int k = (int)op.in(0, 0, 5); mn = kMinMax[k][0]; mx = kMinMax[k][1]; seed = (uint64_t)op.in(1, 1, 1 << 30); final_quiesce = (op.in(2, 0, 3) & 1) == 1; try_zero = (op.in(2, 0, 3) & 2) != 0; }
    else if (op.code == SCHED) { auto &e = g_sched[op.in(0, 0, kNPoints - 1)]; e.permille = (unsigned)op.in(1, 0, 1000); e.delay_us = (unsigned)op.in(2, 0, 1500); }
  }
  if (!A::kIsPool) { mn = mx = 1; }
  (void)first;
  g_sched_seed = seed; g_sched_hits = 0;

  Shared sh; sh.main_tid = std::this_thread::get_id();
  for (auto &g : sh.gate_open) g = false;
  Loop *loop = Loop::New();
  // WorkThread only: a second loop on its own thread; some tasks direct their completion callback to it
  Loop *alt = nullptr; std::thread alt_thread;
  if (!A::kIsPool) {
    alt = Loop::New();
    alt_thread = std::thread([&] { sh.alt_tid = std::this_thread::get_id(); alt->runNext([&] { sh.alt_ready = true; }, "ready"); alt->runLoop(Loop::Mode::kForever); });
    while (!sh.alt_ready.load()) std::this_thread::yield();
  }
  auto pump = [&] { loop->runNext([] {}, "pump"); loop->runLoop(Loop::Mode::kOnce); };
  std::string err;
  char buf[300];
  int epoch = 0; bool ready = false; int cur_max = mx, max_allowed = mx;
  uint64_t cleanup_end_stamp[64] = {0};
  bool nt_query_overlap = false, nt_cleanup_mixed = false, prio_mix = false;
  int n_status = 0, n_cancel = 0, n_cancel_ok = 0, n_throwing = 0, n_refused_init = 0; bool tried_zero = false;
  {
    A a(loop);
    tbox::verif::SchedPointHookRef().store(&sched_hook);
    // degenerate configuration first: a pool that may not have any worker.  The header demands max > 0 and the unmodified code refuses it;
    // whatever initialize() answers, a task the pool ACCEPTS must be executed - so if (0,0) is accepted, a probe task has to run
    if (A::kIsPool && try_zero) {
      tried_zero = true;
      if (a.init(0, 0)) {
        auto ran = std::make_shared<std::atomic<bool>>(false);
        auto tk = a.exec([ran] { *ran = true; }, [] {}, false, 0, nullptr);
        if (!tk.isNull()) { int64_t dl = steady_ms() + 3000; while (!ran->load() && steady_ms() < dl) std::this_thread::sleep_for(std::chrono::microseconds(200));
          if (!ran->load()) err = "TIMING: initialize(0, 0) succeeded, execute() accepted a task, and the task was not executed within 3 s (a pool whose maximum is 0 can never create a worker)"; }
        a.cleanup();
      }
    }
    if (err.empty()) { ready = a.init(mn, mx);
    if (!ready) { err = "initialize() refused a valid (min,max)"; } }

    auto do_cleanup = [&] {
      // mark what is still queued; gate bodies are released by cleanup_started so that cleanup can join them
      for (int i = 0; i < sh.n; ++i) if (sh.t[i].epoch == epoch && sh.t[i].body_start.load() == 0 && !sh.t[i].cancelled_ok) sh.t[i].queued_at_cleanup = true;
      int running = 0, waiting = 0;
      for (int i = 0; i < sh.n; ++i) if (sh.t[i].epoch == epoch && !sh.t[i].cancelled_ok) {
        if (sh.t[i].body_start.load() != 0 && sh.t[i].body_end.load() == 0) running++;
        if (sh.t[i].body_start.load() == 0) waiting++;
      }
      if (running >= 1 && waiting >= 1) nt_cleanup_mixed = true;
      sh.cleanup_started = true;
      // inside cleanup(), right after it has dropped the waiting tasks: nothing may be waiting any more (nobody submits meanwhile)
      int left_waiting = 0; if (A::kIsPool) g_cleanup_probe = [&] { left_waiting = a.waiting_num(); };
      a.cleanup();                    // a hang is caught by the per-case watchdog
      g_cleanup_probe = nullptr;
      if (left_waiting > 0 && err.empty()) { snprintf(buf, sizeof buf, "cleanup() has dropped the waiting tasks but %d task(s) are still waiting: they can still be picked by a worker or by the workers of the next initialize() although cleanup began before they started", left_waiting); err = buf; }
      cleanup_end_stamp[epoch] = sh.next();
      sh.cleanup_started = false;
      ready = false;
      // a task that was still waiting when cleanup() began has been dropped for good: it must not be reported as waiting (= going to run) any more
      if (A::kIsPool) for (int i = 0; i < sh.n && err.empty(); ++i) if (sh.t[i].epoch == epoch && sh.t[i].queued_at_cleanup && sh.t[i].body_start.load() == 0) {
        int st = a.status(sh.t[i].token);
        if (st == 0) { snprintf(buf, sizeof buf, "after cleanup() returned, task %d (priority %d), which was waiting when cleanup() began, is still reported kWaiting: it has not been dropped and would run after the next initialize()", i, sh.t[i].prio); err = buf; }
      }
    };
    auto quiesce = [&]() -> bool {     // open all gates, wait until every accepted, non-cancelled task of this epoch has run
      for (auto &g : sh.gate_open) g = true;
      // after the first expiry in this process (i.e. while rapidcheck shrinks it) the bound is cut to 2.5 s,
      // otherwise every shrink candidate that still fails costs the full 20 s
      static bool expired_once = false;
      int64_t deadline = steady_ms() + (expired_once ? 2500 : 20000);
      for (;;) {
        bool all = true;
        for (int i = 0; i < sh.n; ++i) if (sh.t[i].epoch == epoch && !sh.t[i].cancelled_ok && sh.t[i].body_end.load() == 0) { all = false; break; }
        if (all) return true;
        if (steady_ms() > deadline) { expired_once = true; return false; }
        std::this_thread::sleep_for(std::chrono::microseconds(200));
      }
    };

    for (size_t k = 0; k < s.ops.size() && err.empty(); ++k) {
      const Op &op = s.ops[k];
      switch (op.code) {
        case EXEC: {
          if (!ready || sh.n >= kMaxTasks) break;
          int i = sh.n; TaskRec &t = sh.t[i];
          int prio = (int)op.in(0, -3, 3); int kind = (int)op.in(1, 0, 3); unsigned us = (unsigned)op.in(2, 0, 400); int gate = (int)op.in(3, 0, kGates - 1);
          t.has_cb = op.in(4, 0, 1) == 1; t.epoch = epoch;
          t.on_alt_loop = !A::kIsPool && t.has_cb && op.in(5, 0, 2) == 0;
          t.prio = std::max(THREAD_POOL_PRIO_MIN, std::min(THREAD_POOL_PRIO_MAX, prio));
          if (!A::kIsPool) t.prio = 0;
          Shared *shp = &sh;
          // a body may end by throwing: both pools run it through CatchThrow(), i.e. an exception ends the body like a return
          bool throws = op.in(6, 0, 4) == 4; if (throws) n_throwing++;
          auto body = [shp, i, kind, us, gate, throws] {
            TaskRec &t = shp->t[i];
            if (std::this_thread::get_id() == shp->main_tid) t.body_on_loop_thread = true;
            int r = shp->running.fetch_add(1) + 1; int m = shp->max_running.load(); while (r > m && !shp->max_running.compare_exchange_weak(m, r)) { }
            t.body_start.store(shp->next()); t.body_count.fetch_add(1);
            if (kind == 1) spin_us(us);
            else if (kind >= 2) { while (!shp->gate_open[gate].load() && !shp->cleanup_started.load()) std::this_thread::sleep_for(std::chrono::microseconds(50)); }
            shp->running.fetch_sub(1);
            t.body_end.store(shp->next());
            if (throws) throw std::runtime_error("c05: task body throws");
          };
          bool on_alt = t.on_alt_loop;
          auto cb = [shp, i, on_alt] {
            TaskRec &t = shp->t[i];
            if (std::this_thread::get_id() != (on_alt ? shp->alt_tid : shp->main_tid)) t.cb_off_loop_thread = true;
            t.cb_stamp.store(shp->next()); t.cb_count.fetch_add(1);
          };
          sh.n++;                      // published before execute() so that the body may touch it
          t.submit_stamp = sh.next();
          t.token = a.exec(body, cb, t.has_cb, prio, t.on_alt_loop ? alt : nullptr);
          t.accepted_stamp = sh.next();
          if (t.token.isNull()) { snprintf(buf, sizeof buf, "op %zu: execute() returned a null token on an initialised pool", k); err = buf; }
          for (int j = 0; j < i; ++j) if (sh.t[j].epoch == epoch && sh.t[j].prio != t.prio) prio_mix = true;
          break; }
        case STATUS: {
          if (!ready || sh.n == 0) break;
          int i = op.in(1, 0, 2) ? sh.n - 1 - (int)op.in(0, 0, std::min(sh.n, 3) - 1) : (int)op.in(0, 0, sh.n - 1);   // mostly a recent task
          TaskRec &t = sh.t[i];
          if (t.epoch != epoch) break;
          uint64_t started_before = t.body_start.load();
          int st = a.status(t.token); n_status++;
          uint64_t ended_after = t.body_end.load();
          if (t.cancelled_ok) { if (st != 2) { snprintf(buf, sizeof buf, "op %zu: getTaskStatus() of a successfully cancelled task %d answered %d (expected kNotFound)", k, i, st); err = buf; } break; }
          if (st == 2 && ended_after == 0) { snprintf(buf, sizeof buf, "op %zu: getTaskStatus() answered kNotFound for task %d whose body has not finished (it is still going to run / running)", k, i); err = buf; }
          if (st == 0 && started_before != 0) { snprintf(buf, sizeof buf, "op %zu: getTaskStatus() answered kWaiting for task %d whose body had already started", k, i); err = buf; }
          if (started_before == 0 && t.body_start.load() != 0) nt_query_overlap = true;   // the query overlapped the pick-up
          break; }
        case CANCEL: {
          if (!ready || sh.n == 0) break;
          int i = op.in(1, 0, 2) ? sh.n - 1 - (int)op.in(0, 0, std::min(sh.n, 3) - 1) : (int)op.in(0, 0, sh.n - 1);
          TaskRec &t = sh.t[i];
          if (t.epoch != epoch) break;
          uint64_t started_before = t.body_start.load();
          int r = a.cancel(t.token); n_cancel++;
          uint64_t ended_after = t.body_end.load();
          if (t.cancelled_ok) { if (r != 1) { snprintf(buf, sizeof buf, "op %zu: second cancel() of cancelled task %d answered %d (expected 1 = not found)", k, i, r); err = buf; } break; }
          if (r == 0) { t.cancelled_ok = true; n_cancel_ok++; if (started_before != 0) { snprintf(buf, sizeof buf, "op %zu: cancel() reported success for task %d whose body had already started", k, i); err = buf; } }
          else if (r == 1 && ended_after == 0) { snprintf(buf, sizeof buf, "op %zu: cancel() answered 1 (not found) for task %d whose body has not finished (it is still going to run / running)", k, i); err = buf; }
          if (started_before == 0 && t.body_start.load() != 0) nt_query_overlap = true;
          break; }
        case SNAP: {
          if (!ready) break;
          int tn = a.thread_num();
          if (tn > cur_max) { snprintf(buf, sizeof buf, "op %zu: snapshot().thread_num = %d exceeds the configured maximum %d", k, tn, cur_max); err = buf; }
          break; }
        case OPEN: sh.gate_open[op.in(0, 0, kGates - 1)] = true; break;
        case WAIT: spin_us((unsigned)op.in(0, 0, 3000)); break;
        case PUMP: pump(); break;
        case QUIESCE: if (ready && !quiesce()) err = "TIMING: accepted tasks did not all run within 20 s although all gates are open (lost task / lost wake-up)"; break;
        case CLEANUP: if (ready) do_cleanup(); break;
        case INIT: {
          if (ready && A::kIsPool) {   // initialize() on a pool that is already initialised must be refused and must not change anything
            int kk = (int)op.in(0, 0, 5); n_refused_init++;
            if (a.init(kMinMax[kk][0], kMinMax[kk][1])) { snprintf(buf, sizeof buf, "op %zu: initialize() on an already initialised pool returned true", k); err = buf; }
            break;
          }
          if (ready || !A::kIsPool) break;
          for (auto &g : sh.gate_open) g = false;
          int kk = (int)op.in(0, 0, 5); epoch++; if (epoch >= 63) epoch = 62;
          cur_max = kMinMax[kk][1]; max_allowed = std::max(max_allowed, cur_max);
          ready = a.init(kMinMax[kk][0], kMinMax[kk][1]);
          if (!ready) err = "initialize() after cleanup() refused a valid (min,max)";
          break; }
        default: break;
      }
    }
    if (err.empty() && ready && final_quiesce && !quiesce()) err = "TIMING: accepted tasks did not all run within 20 s although all gates are open (lost task / lost wake-up)";
    if (ready) do_cleanup();
    else { sh.cleanup_started = true; }
    for (auto &g : sh.gate_open) g = true;
    tbox::verif::SchedPointHookRef().store(nullptr);
    // 'a' destroyed here (joins anything left)
  }
  for (int i = 0; i < 3; ++i) pump();
  delete loop;     // drains whatever is still queued on the loop
  if (alt) { alt->runInLoop([alt] { alt->exitLoop(); }, "exit"); alt_thread.join(); delete alt; }
  if (!err.empty()) return err;

  // ---- history oracle
  for (int i = 0; i < sh.n; ++i) {
    TaskRec &t = sh.t[i];
    int bc = t.body_count.load(), cc = t.cb_count.load();
    if (t.token.isNull()) continue;
    if (bc > 1) { snprintf(buf, sizeof buf, "task %d: body executed %d times", i, bc); return buf; }
    if (t.body_on_loop_thread.load()) { snprintf(buf, sizeof buf, "task %d: body executed on the loop thread", i); return buf; }
    if (t.cancelled_ok && bc != 0) { snprintf(buf, sizeof buf, "task %d: cancel() reported success but the body was executed", i); return buf; }
    if (bc == 0 && !t.cancelled_ok && !t.queued_at_cleanup) { snprintf(buf, sizeof buf, "task %d: accepted and never cancelled, yet its body was never executed although cleanup had not begun before it could start", i); return buf; }
    if (bc == 1 && cleanup_end_stamp[t.epoch] != 0 && t.body_start.load() > cleanup_end_stamp[t.epoch]) { snprintf(buf, sizeof buf, "task %d: body started after cleanup() had returned", i); return buf; }
    int want_cb = (t.has_cb && bc == 1) ? 1 : 0;
    if (cc != want_cb) { snprintf(buf, sizeof buf, "task %d: completion callback ran %d time(s), expected %d (body ran %d time(s), has_cb=%d)", i, cc, want_cb, bc, (int)t.has_cb); return buf; }
    if (cc == 1) {
      if (t.cb_off_loop_thread.load()) { snprintf(buf, sizeof buf, "task %d: completion callback ran on a thread other than the thread of the loop it was directed to", i); return buf; }
      if (t.cb_stamp.load() < t.body_end.load()) { snprintf(buf, sizeof buf, "task %d: completion callback ran before the body returned", i); return buf; }
    }
  }
  if (sh.max_running.load() > max_allowed) { snprintf(buf, sizeof buf, "%d task bodies were running concurrently, more than the configured maximum of workers", sh.max_running.load()); return buf; }
  // pick order, decidable only with a single worker: if B was queued when A was picked, then (prio,seq)(A) <= (prio,seq)(B)
  bool order_checked = false;
  for (int ep = 0; ep <= epoch; ++ep) {
    std::vector<int> started;
    for (int i = 0; i < sh.n; ++i) if (sh.t[i].epoch == ep && sh.t[i].body_count.load() == 1) started.push_back(i);
    bool single = A::kIsPool ? (ep == 0 ? mx == 1 : false) : true;
    if (ep > 0) continue;   // only the first epoch's max is tracked exactly
    if (!single) continue;
    std::sort(started.begin(), started.end(), [&](int x, int y) { return sh.t[x].body_start.load() < sh.t[y].body_start.load(); });
    uint64_t prev_end = 0;
    for (size_t x = 0; x < started.size(); ++x) {
      TaskRec &A_ = sh.t[started[x]];
      uint64_t pick_lb = std::max(A_.submit_stamp, prev_end);   // A was picked no earlier than this
      for (size_t y = x + 1; y < started.size(); ++y) {
        TaskRec &B_ = sh.t[started[y]];
        if (B_.accepted_stamp < pick_lb) {   // execute(B) had returned before A can have been picked: B was queued then
          order_checked = true;
          bool ok = A_.prio < B_.prio || (A_.prio == B_.prio && started[x] < started[y]);
          if (!ok) { snprintf(buf, sizeof buf, "pick order: task %d (prio %d) was started before task %d (prio %d) although both were waiting (priority ascending, FIFO within a priority expected)", started[x], A_.prio, started[y], B_.prio); return buf; }
        }
      }
      prev_end = A_.body_end.load();
    }
  }
  info.cls_if(nt_query_overlap, "status_or_cancel_overlapped_pickup");
  info.cls_if(nt_cleanup_mixed, "cleanup_with_running_and_waiting");
  info.cls_if(order_checked, "pick_order_checked");
  info.cls_if(order_checked && prio_mix, "pick_order_mixed_priorities");
  info.cls_if(epoch > 0, "reinitialised");
  { bool any_alt = false; for (int i = 0; i < sh.n; ++i) if (sh.t[i].on_alt_loop && sh.t[i].cb_count.load()) any_alt = true; info.cls_if(any_alt, "callback_on_explicit_second_loop"); }
  info.cls_if(n_cancel_ok > 0, "cancel_succeeded");
  info.cls_if(n_throwing > 0, "task_body_ends_by_throwing");
  info.cls_if(tried_zero, "initialize_with_maximum_0_tried_first");
  info.cls_if(n_refused_init > 0, "initialize_called_on_an_initialised_pool");
  info.cls_if(g_sched_hits.load() > 0, "sched_point_delay_applied");
  info.cls_if(sh.max_running.load() >= 2, "bodies_in_parallel");
  info.nontrivial = sh.n > 0 && (nt_query_overlap || nt_cleanup_mixed || (order_checked && prio_mix) || (epoch > 0 && n_cancel_ok > 0));
  return "";
}

#ifndef VERIF_ENGINE_FUZZ
rc::Gen<Scenario> gen_common(bool pool) {
  auto tok = range(0, kMaxTasks - 1);
  auto body = rc::gen::weightedOneOf<int64_t>({{4, rc::gen::just<int64_t>(0)}, {3, rc::gen::just<int64_t>(1)}, {3, rc::gen::just<int64_t>(2)}});
  auto opg = rc::gen::weightedOneOf<Op>({
    {10, mkop(EXEC, {range(0, 6) /* raw value; Op::in() maps it to priority -3..3 (incl. the out-of-range ones that get clamped) */, body, rc::gen::weightedOneOf<int64_t>({{3, range(0, 40)}, {1, range(0, 400)}}), range(0, kGates - 1), range(0, 1), range(0, 2), range(0, 4)})},
    {5, mkop(STATUS, {tok, range(0, 2)})},
    {4, mkop(CANCEL, {tok, range(0, 2)})},
    {1, mkop(SNAP, {})},
    {2, mkop(OPEN, {range(0, kGates - 1)})},
    {3, mkop(WAIT, {rc::gen::weightedOneOf<int64_t>({{3, range(0, 60)}, {1, range(0, 3000)}})})},
    {1, mkop(PUMP, {})},
    {1, mkop(QUIESCE, {})},
    {pool ? 1 : 0, mkop(CLEANUP, {})},
    {pool ? 1 : 0, mkop(INIT, {range(0, 5)})},
  });
  auto cfg = mkop(CFG, {range(0, 5), range(1, 1 << 30), rc::gen::weightedOneOf<int64_t>({{4, range(0, 1)}, {1, range(2, 3)}})});
  auto pt = pool ? range(0, 3) : range(4, 6);
  auto sched = mkop(SCHED, {pt, oneOfValues({0, 100, 500, 1000}), oneOfValues({0, 20, 200, 1200})});
  return scenarioOf(fixedOps({cfg, sched, sched, sched}), opsOf(opg));
}
#endif

SubDef mk(const char *name, bool pool) {
  SubDef d; d.name = name;
  d.op_names = {"cfg", "sched", "exec", "status", "cancel", "snap", "open", "wait", "pump", "cleanup", "init", "quiesce"};
  d.op_arity = {3, 3, 7, 2, 2, 0, 1, 1, 0, 0, 1, 0};
  d.nt_rule = "history with tasks where a status/cancel query overlapped a worker's pick-up (task started during the call), or cleanup was called with >= 1 running and >= 1 waiting task, or the single-worker pick order was decided over mixed priorities, or a cancel succeeded after a re-initialise";
  if (pool) d.run = run_impl<PoolAdapter>; else d.run = run_impl<WorkAdapter>;
#ifndef VERIF_ENGINE_FUZZ
  d.gen = [pool] { return gen_common(pool); };
#endif
  return d;
}
SubDef def_pool = mk("thread_pool", true);
SubDef def_work = mk("work_thread", false);
VERIF_REGISTER(&def_pool);
VERIF_REGISTER(&def_work);
}  // namespace
