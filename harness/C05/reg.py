TARGETS = {
    "c05_pool_tsan": {"src": "C05/pool.cpp", "variant": "tsan", "engine": "rc", "libs": ["eventx", "event", "base"]},
    "c05_pool_asan": {"src": "C05/pool.cpp", "variant": "asan", "engine": "rc", "libs": ["eventx", "event", "base"]},
}
_q = {"cases": 2500, "max_size": 60, "case_alarm": 60}
_t = {"cases": 40000, "max_size": 150, "case_alarm": 60}
PROP = {
    "subchecks": [
        {"target": "c05_pool_tsan", "sub": "thread_pool", "quick": dict(_q, workers=5), "thorough": dict(_t, workers=6)},
        {"target": "c05_pool_tsan", "sub": "work_thread", "quick": dict(_q, workers=3), "thorough": dict(_t, workers=3)},
        {"target": "c05_pool_asan", "sub": "thread_pool", "quick": dict(_q, workers=3), "thorough": dict(_t, workers=4)},
        {"target": "c05_pool_asan", "sub": "work_thread", "quick": dict(_q, workers=2), "thorough": dict(_t, workers=3)},
    ],
    "assumptions": ["execute/status/cancel/snapshot/cleanup/initialize are issued from the loop thread only (the statement's domain)",
                    "interleavings with worker progress are sampled (real threads + generated waits + H4 schedule-point delays), not enumerated",
                    "pick order is asserted only where it is decidable from outside: a single worker (max=1 / WorkThread) and pairs of tasks that were both waiting when the earlier one was picked",
                    "cleanup()/quiescence termination is bounded liveness (60 s watchdog / 20 s bound, must reproduce in 2 of 3 isolated replays)"],
}
META = {
    "design_ref": "DESIGN.md section 4, C05",
    "technique": "PBT over generated loop-thread scripts against real worker threads (rapidcheck) with schedule-point perturbation; history oracle with a global sequence counter (exactly-once, thread affinity, callback-after-body, answer consistency, pick order, worker bound); ThreadSanitizer + ASan builds; cleanup watchdog",
    "level_text": "Generated (min,max) configurations and loop-thread scripts of execute (priorities -3..3, instant/spinning/gated bodies, with and without completion callback), status, cancel, snapshot, gate opening, waits, loop pumping, quiesce, cleanup and re-initialise, for ThreadPool and WorkThread, with randomised delays at the H4 schedule points (after pop, wait predicate false, before the stop flag, worker exit decided). Every answer is checked against the event log when it is given, the whole history after the pool and the loop are destroyed. Exploration: interleavings are sampled, not enumerated. Later additions (seeding rounds): task bodies that end by throwing, an explicit second loop for WorkThread callbacks, initialize(0,0) and initialize() on an initialised pool (both must change nothing), priorities over the whole -3..3 range, and a snapshot probe at the schedule point inside cleanup() between 'waiting tasks dropped' and 'stop flag set'.",
    "level_note": "Trusted: TSan/ASan, the atomics-based event log and its global sequence counter. Limits L2/L3 of DESIGN.md section 1 apply.",
}
