TARGETS = {
    "c03_fdevents_rc":   {"src": "C03/fdevents.cpp", "variant": "asan", "engine": "rc",   "libs": ["event", "base"]},
    "c03_fdevents_fuzz": {"src": "C03/fdevents.cpp", "variant": "asan", "engine": "fuzz", "libs": ["event", "base"]},
}
PROP = {
    "subchecks": [
        {"target": "c03_fdevents_rc", "sub": "fdevents",
         "quick": {"cases": 4000, "max_size": 100, "workers": 6, "case_alarm": 60},
         "thorough": {"cases": 100000, "max_size": 100, "workers": 12, "case_alarm": 60}},
        {"target": "c03_fdevents_fuzz", "sub": "fdevents",
         "quick": {"runs": 6000, "max_len": 400, "workers": 2, "unit_timeout": 60},
         "thorough": {"runs": 150000, "max_len": 600, "workers": 4, "unit_timeout": 60}},
    ],
    "assumptions": [],
}
META = {"design_ref": "DESIGN.md section 4, C03", "technique": "", "level_text": "", "level_note": ""}
