TARGETS = {
    "c03_fdevents_rc":   {"src": "C03/fdevents.cpp", "variant": "asan", "engine": "rc",   "libs": ["event", "base"]},
    "c03_fdevents_fuzz": {"src": "C03/fdevents.cpp", "variant": "asan", "engine": "fuzz", "libs": ["event", "base"]},
}
PROP = {
    "subchecks": [
        # one case = the same scenario on a fresh epoll loop and on a fresh select loop (~1 ms under ASan)
        {"target": "c03_fdevents_rc", "sub": "fdevents",
         "quick": {"cases": 20000, "max_size": 100, "workers": 8, "case_alarm": 60},
         "thorough": {"cases": 300000, "max_size": 100, "workers": 12, "case_alarm": 60}},
        {"target": "c03_fdevents_fuzz", "sub": "fdevents",
         "quick": {"runs": 25000, "max_len": 500, "workers": 3, "unit_timeout": 60},
         "thorough": {"runs": 350000, "max_len": 700, "workers": 4, "unit_timeout": 60}},
    ],
    "assumptions": [
        "callers stay within the asserted / documented preconditions: an event is never deleted inside its own callback (deferred delete through runNext instead), no wait call is made while an enabled event sits on a closed descriptor (a descriptor may be closed while its events are enabled, but they are disabled or destroyed inside the same action, before the loop waits again), an event of a closed descriptor is never enabled",
        "kExceptEvent occurs in subscriptions only (masks R|E, W|E, R|W|E, E); no exceptional condition is produced on purpose; a descriptor in an error condition (POLLERR: write end of a pipe without reader) is served under the safety oracle, but from that pass on the two back-ends are not compared (EPOLLERR vs. select's 'readable and writable')",
        "readiness is the kernel's view at the wait call of the pass (poll() snapshot taken right before it); bytes consumed by an earlier callback of the same pass do not revoke it, as FdEvent.OneWriteMultiRead expects",
        "a pass marked as interrupted wait blocks for real (0.4-1.2 ms) until a real-time signal with a no-op handler interrupts epoll_wait/select; it is armed only when the model predicts that nothing is ready",
        "the model takes mask and mode (persistent / one-shot) of the last successful initialize(); the defect of proposed-fixes/04 (the one-shot flag was never cleared by a later initialize(kPersist)) is fixed in /repo by 969605f, so that shape is generated (kAvoid_oneshot_to_persist_reinit = false)",
        "left free: order in which ready descriptors are served, whether an event enabled by a callback on a descriptor that is ready fires in the same or the next pass, reported mask bits nobody subscribed to, liveness of events that were touched during the pass (only through the epoll/select comparison)",
        "liveness is asserted per back-end for events enabled on an open, POLLERR-free descriptor that poll() reports ready for a subscribed condition when the pass begins and that nobody enabled/disabled/re-initialised/destroyed during the pass",
        "back-ends are compared only up to the first pass in which a callback touched another event of a descriptor ready in that pass, or callbacks of two different descriptors acted beyond their own event",
    ],
}
META = {
    "design_ref": "DESIGN.md section 4, C03",
    "technique": "model-based stateful PBT (rapidcheck) + coverage-guided fuzzing (libFuzzer) of generated descriptor sets, readiness scripts and in-callback mutation scripts against a tombstone/enable-state model, differential epoll vs. select, under ASan/UBSan with object-pool poisoning",
    "level_text": "Generated scenarios (2-5 pipes/socket pairs with permuted descriptor numbers, in a sixth of the cases one of them on descriptor number 0, 1-8 initial events with read/write masks optionally subscribing kExceptEvent as well, persistent or one-shot, several per descriptor; up to 12 loop passes each with a readiness script: write / drain / fill until unwritable / drain the peer / close the peer; in a fifth of the cases one pass whose blocking wait is interrupted by a handled signal (EINTR); per event and firing number a script of disable self, enable / disable / destroy / replace another event chosen among the events of the same descriptor, of another descriptor ready in this pass or of an idle descriptor, create an event on a descriptor whose record was just freed, disable-all-then-close, read, deferred self-delete, move to another descriptor, recycle a descriptor (close it while its events are enabled or after, disable or destroy them, re-open a pair under the same descriptor number, watch it with an old object or a new event), re-initialise in place on the same descriptor with the same or a new mask (swap, narrow, widen, none) and the other / the same mode, initialize twice at creation) run on a fresh epoll loop and a fresh select loop, one real loop pass at a time. At every callback: the event object exists and the model says enabled (nobody - including an earlier callback of the same pass - disabled or destroyed it), isEnabled() is true / already false for one-shot, the reported mask contains a subscribed condition for which poll() saw the descriptor ready when the pass began; after every pass isEnabled() of every event equals the model, and every event that was enabled on a ready descriptor when the pass began and was not touched during the pass has had its callback; no exception leaves runLoop; ASan with poisoned pool blocks is clean. For the order-independent prefix of a scenario the multiset of (event, reported&subscribed mask) per pass is identical on both back-ends. Exploration only: no counter-example among N generated scenarios.",
    "level_note": "Trusted: the enable-state model in harness/C03/fdevents.cpp, poll() as the readiness reference, the classification of order-independent passes (conservative), ASan/UBSan and hook H3. Not covered: delivery of exceptional conditions (kExceptEvent is only subscribed), a wait call while an enabled event sits on a closed descriptor, deleting an event in its own callback, more than 5 descriptors / 16 events / 12 passes, readiness changes made by other threads or peers during a pass, liveness when both back-ends lose the same callback.",
}
