// C03 — Fd events fire only when enabled and ready; mutation in callbacks is safe.
//
// A scenario is a flat op list (every list is valid):
//   cfg  mode perm engines        mode 0 = one runLoop(kForever) driven by a tick re-posted with runNext per pass, 1 = runLoop(kOnce) per pass with a
//                                 pending runNext; perm = order of the watched descriptor NUMBERS (select serves ready
//                                 descriptors in ascending number); engines 0 = epoll then select, 1 = epoll only, 2 = select only
//                                 perm / 120 (round 7): 0 = nothing, 1..5 = one watched end is moved to descriptor number 0 for the case
//                                 (the process's stdin is saved with dup and restored at the end of the case)
//   fd   kind                     a descriptor pair: 0 = pipe, read end watched; 1 = pipe, write end watched; 2 = unix socketpair
//   ev   fd mask oneshot state    state 0 enabled, 1 disabled, 2/3 the same but initialize() is called twice: first with the
//                                 other mode, then with the requested one ("changed my mind" directly after the first initialize)
//   (ev, continued)               an initial event (mask 0=R 1=W 2=R|W 3=none, 4..7 = R|E W|E R|W|E E with kExceptEvent subscribed too; on a watched pipe write end R is dropped)
//   pass                          starts the script of the next loop pass (ops before the first `pass` belong to pass 0)
//   intr d                        (after pass/rdy/out ops of a pass) the wait of this pass is INTERRUPTED by a handled signal:
//                                 if no enabled event has its descriptor ready, the loop really blocks in epoll_wait/select
//                                 (no pending runNext, no timer) and a real-time signal with a no-op handler, sent to the
//                                 loop thread 0.4-1.2 ms later by a POSIX timer, makes the wait fail with EINTR; the handler
//                                 writes one byte to a harness-owned pipe whose (un-modelled) read event lets the loop go on.
//                                 If something is ready the pass is an ordinary one.  Same oracle: no callback at all is due.
//   rdy  fd what n                readiness script, applied between passes: 0 write n bytes towards the watched end,
//                                 1 drain the watched end, 2 fill the watched end until it is unwritable, 3 drain the peer
//                                 (watched end writable again), 4 close the peer end
//   out  action tk sel arg        an action (same table as cb) performed between passes, outside any callback
//   cb   ev firing action tk sel arg   on the firing-th callback (3 = third and every later one) of event ev do:
//                                 0 disable self | 1 enable T | 2 disable T | 3 destroy T (T = self: disable + deferred
//                                 delete through runNext, the documented idiom) | 4 create+enable a new event on descriptor F
//                                 | 5 replace T: destroy it, then create+enable a new event on the same descriptor (pooled
//                                 record reuse when T was the last one) | 6 disable all events of F, then close F | 7 read
//                                 (pipe write end: write) arg bytes on the own descriptor | 8 move self (outside a callback: T)
//                                 to descriptor F: disable, initialize(F, same mask, mode), enable (in a callback sel&1 flips
//                                 the mode)  [extension, see NOTES.md] | 9 re-initialise T in place: disable, initialize(same
//                                 descriptor, same mask, mode'), enable if it was enabled or arg&4; mode' by arg&3: 0 the other
//                                 mode, 1 the same mode ("same everything"), 2 one-shot, 3 persistent.  The model takes the
//                                 mode of the LAST successful initialize().  (arg>>3)&7 (round 6) also gives it a NEW MASK: 0 keep,
//                                 1 R, 2 W, 3 R|W, 4 swap/narrow (R->W, W->R, RW->R), 5 widen to R|W, 6 none - e.g. a sibling on
//                                 the same descriptor that is in the running dispatch loses the condition the descriptor is ready for.
//                                 | 10 recycle descriptor F (round 5): close both ends, retire all events of F, open a new pair
//                                 of the same kind whose watched end gets the SAME descriptor number, watch it again.  arg&1:
//                                 0 = close while the events are still enabled and retire them afterwards, 1 = retire first;
//                                 arg&2: retire = 0 disable / 1 destroy (the acting event is only disabled); (arg>>2)&3:
//                                 0 enable one of the old (disabled, still existing) objects again, 1 re-initialise it on the
//                                 new descriptor and enable it, 2 create+enable a new event (old objects, if any, stay),
//                                 3 nothing; arg>>4 picks the old object / the new mask.  No wait call happens between the
//                                 close and the retirement (both are inside one action), see NOTES.md "domain".
//                                 T / F are chosen by tk among the CURRENT candidates (sel picks one; no candidate = no-op):
//                                 0 same descriptor (other event) | 1 another descriptor that is ready in this pass |
//                                 2 another descriptor that is not ready | 3 any (F: prefers a descriptor without events,
//                                 i.e. whose record was freed) | 4 self / own descriptor
//
// Oracle (per back-end): at every callback the event object is alive (tombstone record shared with the callback, so
// the check never touches freed memory), the model says it is enabled (nobody - including an earlier callback of the
// same pass - disabled or destroyed it), isEnabled() is true (persistent) / already false (one-shot), and the
// reported mask contains a subscribed condition for which poll() found the descriptor ready when the pass started
// (the kernel's view at the wait call; reads made by earlier callbacks of the same pass do not revoke it, exactly as
// FdEvent.OneWriteMultiRead expects).  After every pass isEnabled() of every live event equals the model.  runLoop
// throws nothing; ASan with pool poisoning (H3) is clean.
// Differential: up to (excluding) the first pass in which a callback touched another event of a descriptor that is
// ready in that pass, the multiset of (event, reported mask & subscribed mask) per pass is the same on epoll and select.
// Left free: how many ready descriptors are served in which order; whether an event that an earlier callback enabled
// on a ready descriptor fires in the same pass or in the next one; the bits of the reported mask nobody subscribed to
// (epoll adds HUP-as-read and ERR); liveness beyond the differential.
#define VERIF_MAIN
#include "../common/verif.h"
#include <tbox/event/loop.h>
#include <tbox/event/fd_event.h>
#include <algorithm>
#include <memory>
#include <poll.h>
#include <sys/socket.h>
#include <sys/syscall.h>
#include <signal.h>
#include <time.h>

using namespace verif;
using tbox::event::FdEvent;
using tbox::event::Loop;

namespace {

enum { CFG, FD, EV, PASS, RDY, OUT, CB, INTR, NOPS };
enum Kind { PIPE_R, PIPE_W, SOCK };
enum Rdy { R_WRITE, R_DRAIN, R_FILL, R_UNFILL, R_CLOSEPEER, NRDY };
enum Act { A_DISABLE_SELF, A_ENABLE, A_DISABLE, A_DESTROY, A_CREATE, A_REPLACE, A_CLOSEFD, A_READ, A_REINIT, A_REMODE, A_RECYCLE, NACT };
enum TK { T_SAMEFD, T_HOT, T_COLD, T_RAW, T_SELF, NTK };
const int kMaxFds = 5, kMaxInitEv = 8, kMaxEv = 16, kMaxPasses = 12, kMaxStepsPerPass = 12, kMaxCbPerEv = 8;
const int kR = FdEvent::kReadEvent, kW = FdEvent::kWriteEvent, kE = FdEvent::kExceptEvent;
// masks 4..7 (round 7) add kExceptEvent to the SUBSCRIPTION; an exceptional condition itself is never produced on purpose
// (the only one that occurs is POLLERR on a pipe write end without reader, see "err" below)
const int kMaskTab[8] = {kR, kW, kR | kW, 0, kR | kE, kW | kE, kR | kW | kE, kE};
// Known clean-tree defect (proposed-fixes/04): FdEvent::initialize() never clears the one-shot flag, so an object that
// was ever initialised as kOneshot stays one-shot when it is re-initialised as kPersist (both back-ends).  While the
// fix is not in the tree, a re-initialisation that asks for kPersist on such an object asks for kOneshot instead
// (counted in counters["avoided_oneshot_to_persist_reinit"]).  Set to false once the fix is committed
// (maintenance: VERIF_C03_NO_AVOID=1 switches the avoidance off for one run).
static const bool kAvoid_oneshot_to_persist_reinit = false;
bool avoid_sticky() { static bool off = getenv("VERIF_C03_NO_AVOID") != nullptr; return kAvoid_oneshot_to_persist_reinit && !off; }

const char *kActName[] = {"disable-self", "enable", "disable", "destroy", "create", "replace", "close-fd", "read", "re-initialize", "re-initialize-in-place", "recycle-descriptor"};

// ------------------------------------------------------------------------------------------------ definition
struct DEv { int fdi, mask; bool oneshot, enabled, twice; };
struct DAct { int action, tk, sel, arg; };
struct DStep { bool is_rdy; int fdi, what, n; DAct act; };
struct DCb { int firing; DAct act; };
struct Def {
  int mode = 0, perm = 0, engines = 0;
  int zero = 0;   // 1..5: descriptor (zero-1) mod #descriptors is moved to descriptor NUMBER 0 for the case (perm / 120)
  std::vector<int> kinds;
  std::vector<DEv> evs;
  std::vector<std::vector<DStep>> passes;
  std::vector<int> intr;          // per pass: 0 = ordinary, else delay of the interrupting signal in microseconds
  bool has_intr = false;
  std::vector<DCb> cbs[kMaxEv];
};

int fix_mask(int kind, int mask) { return (kind == PIPE_W && (mask & (kR | kW))) ? ((mask & kE) | kW) : mask; }

Def parse(const Scenario &s) {
  Def d;
  for (auto &op : s.ops) if (op.code == FD && (int)d.kinds.size() < kMaxFds) d.kinds.push_back((int)op.in(0, 0, 2));
  if (d.kinds.empty()) d.kinds.push_back(PIPE_R);
  if (d.kinds.size() < 2) d.kinds.push_back(SOCK);
  int nf = (int)d.kinds.size();
  d.passes.emplace_back(); d.intr.push_back(0);
  bool cfg_seen = false;
  for (auto &op : s.ops) {
    switch (op.code) {
      case CFG:
        if (cfg_seen) break;
        cfg_seen = true; d.mode = (int)op.in(0, 0, 1); d.perm = (int)op.in(1, 0, 719) % 120; d.zero = (int)op.in(1, 0, 719) / 120; d.engines = (int)op.in(2, 0, 2); break;
      case EV: {
        if ((int)d.evs.size() >= kMaxInitEv) break;
        DEv e; e.fdi = (int)op.in(0, 0, nf - 1); e.mask = fix_mask(d.kinds[e.fdi], kMaskTab[op.in(1, 0, 7)]);
        e.oneshot = op.in(2, 0, 1) != 0; e.enabled = (op.in(3, 0, 3) & 1) == 0; e.twice = (op.in(3, 0, 3) & 2) != 0;
        d.evs.push_back(e); break; }
      case PASS: if ((int)d.passes.size() < kMaxPasses) { d.passes.emplace_back(); d.intr.push_back(0); } break;
      case INTR: d.intr.back() = 400 + 400 * (int)op.in(0, 0, 2); d.has_intr = true; break;
      case RDY: {
        if ((int)d.passes.back().size() >= kMaxStepsPerPass) break;
        DStep st{}; st.is_rdy = true; st.fdi = (int)op.in(0, 0, nf - 1); st.what = (int)op.in(1, 0, NRDY - 1); st.n = (int)op.in(2, 1, 3000);
        d.passes.back().push_back(st); break; }
      case OUT: {
        if ((int)d.passes.back().size() >= kMaxStepsPerPass) break;
        DStep st{}; st.is_rdy = false;
        st.act = DAct{(int)op.in(0, 0, NACT - 1), (int)op.in(1, 0, NTK - 1), (int)op.in(2, 0, 63), (int)op.in(3, 0, 4095)};
        d.passes.back().push_back(st); break; }
      case CB: {
        int e = (int)op.in(0, 0, kMaxEv - 1);
        if ((int)d.cbs[e].size() >= kMaxCbPerEv) break;
        DCb c; c.firing = (int)op.in(1, 0, 3);
        c.act = DAct{(int)op.in(2, 0, NACT - 1), (int)op.in(3, 0, NTK - 1), (int)op.in(4, 0, 63), (int)op.in(5, 0, 4095)};
        d.cbs[e].push_back(c); break; }
      default: break;
    }
  }
  if (d.evs.empty()) d.evs.push_back(DEv{0, fix_mask(d.kinds[0], kR), false, true, false});
  return d;
}

// ------------------------------------------------------------------------------------------------ one back-end run
struct Rec {   // tombstone + model of one event; shared with its callback
  int idx = 0, fdi = 0, mask = 0; bool oneshot = false;
  bool alive = true, enabled = false, doomed = false;
  int fires = 0, fired_pass = -1;
  int touched_pass = -1;       // somebody enabled/disabled/re-initialised/destroyed it while this pass was being served
  bool obliged = false;        // enabled and its descriptor ready for a subscribed condition when the pass began
  bool ever_oneshot = false;   // some initialize() of this object asked for kOneshot
  FdEvent *ev = nullptr;
};
struct FdSt {
  int kind = 0, w = -1, p = -1;   // watched end, peer end (-1 = closed)
  int snap = 0; bool snap_err = false;
  int passmask = 0;               // union of the masks of all events that existed on it at any time of this pass
  bool targeted = false;          // a callback of this pass touched an event (other than itself) of this descriptor
  int nalive = 0;                 // existing event objects
  int num = -1;                   // descriptor NUMBER of the watched end (kept across recycling)
  int gen = 0;                    // how often the descriptor was closed and re-opened under the same number
};
struct Flags {   // shape of the case (both back-ends or'ed)
  bool multi_ready = false, kill_same_fd = false, kill_other_ready = false, kill_pending = false, kill_cold = false;
  bool destroy_same_fd = false, destroy_other_ready = false, freed_in_cb = false, realloc_after_free = false;
  bool enable_other = false, rearm_self = false, closefd_in_cb = false, oneshot_fired = false, created_in_cb = false;
  bool hup = false, unwritable = false, deferred_self_delete = false, read_in_cb = false, shared_fd_fired = false;
  bool nt = false, err_ambiguous = false, reinit_in_cb = false;
  bool remode_to_oneshot = false, remode_to_persist = false, remode_same = false, remode_second_life = false, remode_fresh = false, remode_in_cb = false, init_twice = false;
  bool recycle_in_cb = false, recycle_outside = false, close_before_retire = false, rewatch_old_object = false, new_event_old_alive = false, cb_on_recycled = false, obligations = false;
  bool remask = false, remask_in_cb = false, remask_sibling_in_cb = false, remask_pending_sibling_loses_ready_condition = false, remask_to_not_ready_condition = false;
  bool except_mask = false, e_retired_w_sibling = false, fd0 = false, cb_on_fd0 = false;
  bool intr_blocked = false, intr_eintr = false, intr_with_enabled_idle = false, intr_not_blocking = false;
  int callbacks = 0;
};

const char kBytes[4096] = {0};
// maintenance aid: VERIF_C03_TRACE=1 prints every snapshot, action and callback of a replayed case to stderr
bool tracing() { static bool t = getenv("VERIF_C03_TRACE") != nullptr; return t; }
#define TRACE(...) do { if (tracing()) { fprintf(stderr, "[c03 %s p%d] ", engine, pass); fprintf(stderr, __VA_ARGS__); fputc('\n', stderr); } } while (0)

// ---- interrupted waits: a real-time signal nobody else uses, handled by a handler that only pokes the wake pipe
int intr_signo() { return SIGRTMIN + 5; }
volatile int g_wake_wfd = -1;
void on_intr_signal(int) {
  int saved = errno; int fd = g_wake_wfd;
  if (fd >= 0) { char c = 1; ssize_t r = ::write(fd, &c, 1); (void)r; }
  errno = saved;
}
struct SigGuard {   // installs the handler (no SA_RESTART) for one case and restores the previous disposition afterwards
  struct sigaction old; bool on = false;
  void install() {
    if (on) return;
    struct sigaction sa; memset(&sa, 0, sizeof sa); sa.sa_handler = on_intr_signal; sigemptyset(&sa.sa_mask); sa.sa_flags = 0;
    on = sigaction(intr_signo(), &sa, &old) == 0;
  }
  ~SigGuard() { if (on) sigaction(intr_signo(), &old, nullptr); }
};

struct Run {
  const Def &d; const char *engine; Flags &fl;
  Loop *loop = nullptr;
  std::vector<FdSt> fds;
  std::vector<std::shared_ptr<Rec>> evs;
  int pass = 0; bool in_cb = false; bool freed_this_pass = false;
  bool pass_open = false; // between the readiness snapshot of a pass and its end
  bool done = false;      // go() is over (a driver task left behind by an escaped exception must not do anything any more)
  // interrupted waits
  int wk_r = -1, wk_w = -1; FdEvent *wake_ev = nullptr; timer_t tm{}; bool tm_ok = false;
  bool waiting_intr = false; bool wake_fired = false; int64_t arm_count = 0;
  std::function<void()> tick;
  std::set<int> actors;   // descriptors whose callbacks attempted, in this pass, an action that is not confined to the acting event
  std::string err;
  std::vector<std::vector<std::pair<int, int>>> trace;   // per pass: (event, reported & subscribed)
  std::vector<char> dep;                                   // per pass: order-dependent
  std::vector<char> ambiguous;                             // per pass: POLLERR on a descriptor that has events

  Run(const Def &def, const char *eng, Flags &f) : d(def), engine(eng), fl(f) {}
  ~Run() { teardown(); }

  void fail(const std::string &m) { if (err.empty()) err = std::string(engine) + ", pass " + std::to_string(pass) + ": " + m; }
  std::string evname(const Rec &r) const {
    char b[96]; snprintf(b, sizeof b, "event %d (descriptor %d, mask %s%s%s%s)", r.idx, r.fdi, (r.mask & kR) ? "R" : "", (r.mask & kW) ? "W" : "", (r.mask & kE) ? "E" : "", r.oneshot ? ", one-shot" : "");
    return b;
  }

  // ---- descriptors
  static void nodelay_close(int &fd) { if (fd >= 0) { ::close(fd); fd = -1; } }
  bool setup() {
    loop = Loop::New(engine);
    if (!loop) { fail("Loop::New returned nullptr"); return false; }
    int nf = (int)d.kinds.size();
    // rank[i] = position of descriptor i in ascending descriptor-number order (Lehmer code of d.perm)
    std::vector<int> order, pool; for (int i = 0; i < nf; ++i) pool.push_back(i);
    int code = d.perm; for (int i = nf; i >= 1; --i) { int k = code % i; code /= i; order.push_back(pool[k]); pool.erase(pool.begin() + k); }
    std::vector<int> rank(nf); for (int i = 0; i < nf; ++i) rank[order[i]] = i;
    fds.resize(nf);
    for (int i = 0; i < nf; ++i) {
      fds[i].kind = d.kinds[i];
      if (!open_pair(i, 60 + 8 * rank[i])) return false;
      fds[i].num = fds[i].w;
    }
    if (d.zero) { move_to_zero((d.zero - 1) % nf); if (!err.empty()) return false; }
    if (d.has_intr) {
      int a[2];
      if (::pipe2(a, O_NONBLOCK | O_CLOEXEC) != 0) { fail("harness: pipe2 failed"); return false; }
      wk_r = ::fcntl(a[0], F_DUPFD_CLOEXEC, 40); wk_w = ::fcntl(a[1], F_DUPFD_CLOEXEC, 240);
      ::close(a[0]); ::close(a[1]);
      if (wk_r < 0 || wk_w < 0) { fail("harness: F_DUPFD failed"); return false; }
      wake_ev = loop->newFdEvent("c03 wake");
      if (!wake_ev || !wake_ev->initialize(wk_r, FdEvent::kReadEvent, tbox::event::Event::Mode::kPersist)) { fail("harness: wake event"); return false; }
      wake_ev->setCallback([this](short) { on_wake(); });
      wake_ev->enable();
      struct sigevent sev; memset(&sev, 0, sizeof sev);
      sev.sigev_notify = SIGEV_THREAD_ID; sev.sigev_signo = intr_signo(); sev._sigev_un._tid = (pid_t)::syscall(SYS_gettid);
      tm_ok = ::timer_create(CLOCK_MONOTONIC, &sev, &tm) == 0;
      g_wake_wfd = wk_w;
    }
    for (auto &e : d.evs) new_event(e.fdi, e.mask, e.oneshot, e.enabled, e.twice);
    return err.empty();
  }
  void arm(int usec) { struct itimerspec its; memset(&its, 0, sizeof its); its.it_value.tv_nsec = (long)usec * 1000; ::timer_settime(tm, 0, &its, nullptr); }
  void disarm() { if (tm_ok) { struct itimerspec its; memset(&its, 0, sizeof its); ::timer_settime(tm, 0, &its, nullptr); } }
  // the un-modelled wake event: the signal handler made its pipe readable; in kForever mode it continues the pass sequence
  void on_wake() {
    if (wk_r >= 0) drain(wk_r);
    wake_fired = true;
    if (waiting_intr && !done) {
      waiting_intr = false;
      // the wait entered after arming failed with EINTR iff a whole extra loop round (the interrupted one) lies in between
      if ((int64_t)loop->getStat().loop_count - arm_count >= 2) fl.intr_eintr = true;
      loop->runNext(tick, "c03 tick");
    }
  }
  // Does the wait of this pass block?  Only then the interruption is armed (a pure function of scenario and model).
  bool nothing_ready() const {
    for (auto &r : evs) if (r->alive && r->enabled && fds[r->fdi].w >= 0 && (r->mask & fds[r->fdi].snap)) return false;
    return true;
  }
  bool interrupt_this_pass(int k) {
    if (!d.intr[k] || !tm_ok) return false;
    if (!nothing_ready()) { fl.intr_not_blocking = true; return false; }
    fl.intr_blocked = true;
    for (auto &r : evs) if (r->alive && r->enabled && r->mask) fl.intr_with_enabled_idle = true;
    return true;
  }
  // a fresh pipe / socket pair for descriptor i; the watched end gets the lowest free number >= wmin
  bool open_pair(int i, int wmin) {
    FdSt &f = fds[i];
    int a[2];
    if (f.kind == SOCK) {
      if (::socketpair(AF_UNIX, SOCK_STREAM | SOCK_NONBLOCK | SOCK_CLOEXEC, 0, a) != 0) { fail("harness: socketpair failed"); return false; }
      int sz = 2048; ::setsockopt(a[0], SOL_SOCKET, SO_SNDBUF, &sz, sizeof sz); ::setsockopt(a[1], SOL_SOCKET, SO_SNDBUF, &sz, sizeof sz);
    } else {
      if (::pipe2(a, O_NONBLOCK | O_CLOEXEC) != 0) { fail("harness: pipe2 failed"); return false; }
      ::fcntl(a[1], F_SETPIPE_SZ, 4096);
      if (f.kind == PIPE_W) std::swap(a[0], a[1]);
    }
    // peer first: pipe2/socketpair may themselves have been given the wanted number (it is the lowest free one when it is 0)
    f.p = ::fcntl(a[1], F_DUPFD_CLOEXEC, 200 + 4 * i); ::close(a[1]);
    if (a[0] == wmin) f.w = a[0]; else { f.w = ::fcntl(a[0], F_DUPFD_CLOEXEC, wmin); ::close(a[0]); }
    if (f.w < 0 || f.p < 0) { fail("harness: F_DUPFD failed"); return false; }
    return true;
  }
  // ---- descriptor number 0 (round 7): one watched end lives on number 0; stdin is parked on a high number meanwhile
  int zero_idx = -1, saved0 = -1; bool zero_active = false, parked = false;
  void move_to_zero(int i) {
    saved0 = ::fcntl(0, F_DUPFD_CLOEXEC, 300);   // -1 if the process has no descriptor 0
    if (::dup2(fds[i].w, 0) != 0) { fail("harness: dup2 onto 0 failed"); return; }
    ::close(fds[i].w); fds[i].w = 0; fds[i].num = 0; zero_idx = i; zero_active = true;
  }
  // while the harness descriptor on number 0 is closed for longer than one action, number 0 stays occupied (otherwise the
  // loop's own eventfd, created per runLoop(), would take it)
  void park0() {
    if (!zero_active || parked) return;
    int src = saved0 >= 0 ? saved0 : ::open("/dev/null", O_RDONLY | O_CLOEXEC);
    if (src >= 0 && src != 0) { ::dup2(src, 0); if (src != saved0) ::close(src); }
    parked = true;
  }
  void unpark0() { if (parked) { ::close(0); parked = false; } }
  void restore_zero() {
    if (!zero_active) return;
    unpark0();
    if (saved0 >= 0) { ::dup2(saved0, 0); ::close(saved0); saved0 = -1; }
    zero_active = false;
  }
  void teardown() {
    disarm();
    if (tm_ok) { ::timer_delete(tm); tm_ok = false; }
    if (g_wake_wfd == wk_w) g_wake_wfd = -1;
    for (auto &r : evs) if (r->alive) { delete r->ev; r->ev = nullptr; r->alive = false; }
    delete wake_ev; wake_ev = nullptr;
    delete loop; loop = nullptr;
    nodelay_close(wk_r); nodelay_close(wk_w);
    for (auto &f : fds) { nodelay_close(f.w); nodelay_close(f.p); }
    restore_zero();
  }
  static void drain(int fd) { char b[4096]; for (int i = 0; i < 64; ++i) { ssize_t n = ::read(fd, b, sizeof b); if (n <= 0) break; } }
  static void wr(int fd, int n) { while (n > 0) { int c = n > 4096 ? 4096 : n; ssize_t r = ::write(fd, kBytes, c); if (r <= 0) break; n -= (int)r; } }
  static void fill(int fd) { for (int i = 0; i < 4096; ++i) { ssize_t r = ::write(fd, kBytes, 1024); if (r <= 0) break; } }

  void apply_rdy(const DStep &st) {
    FdSt &f = fds[st.fdi];
    switch (st.what) {
      case R_WRITE:
        if (f.kind == PIPE_W) { if (f.p >= 0) drain(f.p); }
        else if (f.p >= 0) wr(f.p, st.n);
        break;
      case R_DRAIN: if (f.w >= 0 && f.kind != PIPE_W) drain(f.w); break;
      case R_FILL:
        if (f.kind == PIPE_R) { if (f.p >= 0) fill(f.p); }
        else if (f.w >= 0) fill(f.w);
        break;
      case R_UNFILL: if (f.p >= 0 && f.kind != PIPE_R) drain(f.p); break;
      case R_CLOSEPEER:
        // unread data in a closed unix socket resets the peer (POLLERR): drain first, the statement is about R/W readiness
        if (f.p >= 0) { if (f.kind == SOCK) drain(f.p); nodelay_close(f.p); }
        break;
    }
  }
  void snapshot() {
    struct pollfd p[kMaxFds]; int idx[kMaxFds]; int n = 0;
    for (size_t i = 0; i < fds.size(); ++i) { fds[i].snap = 0; fds[i].snap_err = false; if (fds[i].w >= 0) { p[n].fd = fds[i].w; p[n].events = POLLIN | POLLOUT; p[n].revents = 0; idx[n++] = (int)i; } }
    if (n) ::poll(p, n, 0);
    for (int k = 0; k < n; ++k) {
      FdSt &f = fds[idx[k]];
      if (p[k].revents & (POLLIN | POLLHUP)) f.snap |= kR;
      if (p[k].revents & POLLOUT) f.snap |= kW;
      if (p[k].revents & POLLERR) { f.snap |= kR | kW | kE; f.snap_err = true; }   // select reports an error condition as readable and writable
      if (p[k].revents & POLLHUP) fl.hup = true;
      if (f.kind != PIPE_R && !(p[k].revents & POLLOUT)) fl.unwritable = true;
      TRACE("snapshot descriptor %d (fd %d kind %d): revents 0x%x -> %s%s", idx[k], f.w, f.kind, (unsigned)p[k].revents, (f.snap & kR) ? "R" : "", (f.snap & kW) ? "W" : "");
    }
  }
  int mask_now(int fdi) const { int m = 0; for (auto &r : evs) if (r->alive && r->fdi == fdi) m |= r->mask; return m; }
  bool hot_now(int fdi) const { return fds[fdi].w >= 0 && (fds[fdi].snap & mask_now(fdi)) != 0; }

  // ---- events
  // every initialize() goes through here: the model takes the mode of the last successful call
  bool do_initialize(Rec &t, int fdi, int mask, bool oneshot) {
    if (!oneshot && t.ever_oneshot && avoid_sticky()) { oneshot = true; stats().counters["avoided_oneshot_to_persist_reinit"]++; }
    TRACE("  initialize %s -> descriptor %d mask 0x%x %s", evname(t).c_str(), fdi, (unsigned)mask, oneshot ? "one-shot" : "persistent");
    if (!t.ev->initialize(fds[fdi].w, (short)mask, oneshot ? tbox::event::Event::Mode::kOneshot : tbox::event::Event::Mode::kPersist)) {
      fail("initialize() of disabled " + evname(t) + " returned false"); return false;
    }
    t.oneshot = oneshot; if (oneshot) t.ever_oneshot = true;
    t.mask = mask; fds[fdi].passmask |= mask; if (mask & kE) fl.except_mask = true;   // the model takes mask and mode of the last successful initialize()
    if (pass_open) t.touched_pass = pass;
    return true;
  }
  std::shared_ptr<Rec> new_event(int fdi, int mask, bool oneshot, bool enable, bool twice = false) {
    if ((int)evs.size() >= kMaxEv || fds[fdi].w < 0) return nullptr;
    auto r = std::make_shared<Rec>();
    r->idx = (int)evs.size(); r->fdi = fdi; r->mask = mask; r->oneshot = oneshot;
    r->ev = loop->newFdEvent("c03");
    evs.push_back(r);
    fds[fdi].nalive++; fds[fdi].passmask |= mask;
    if (!r->ev) { r->alive = false; fail("newFdEvent() returned nullptr"); return nullptr; }
    bool first_mode = oneshot;
    if (twice) { fl.init_twice = true; do_initialize(*r, fdi, mask, !oneshot); first_mode = r->oneshot; }
    do_initialize(*r, fdi, mask, oneshot);
    if (twice && r->oneshot != first_mode) { (r->oneshot ? fl.remode_to_oneshot : fl.remode_to_persist) = true; fl.remode_fresh = true; }
    r->ev->setCallback([this, r](short events) { fire(r, events); });
    TRACE("  new %s", evname(*r).c_str());
    if (enable) do_enable(*r);
    return r;
  }
  void do_enable(Rec &t) {
    if (fds[t.fdi].w < 0) return;   // never enable an event of a closed descriptor
    TRACE("  enable %s", evname(t).c_str());
    if (!t.ev->enable()) fail("enable() of " + evname(t) + " returned false");
    t.enabled = true; if (pass_open) t.touched_pass = pass;
  }
  // an enabled subscriber of kExceptEvent leaves while the same descriptor has (or it is itself) an enabled write subscriber
  void note_retire(const Rec &t) {
    if (!t.enabled || !(t.mask & kE)) return;
    for (auto &o : evs) if (o->alive && o->fdi == t.fdi && (o->mask & kW) && (o->enabled || o.get() == &t)) fl.e_retired_w_sibling = true;
  }
  void do_disable(Rec &t) {
    note_retire(t);
    TRACE("  disable %s", evname(t).c_str());
    if (!t.ev->disable()) fail("disable() of " + evname(t) + " returned false");
    t.enabled = false; if (pass_open) t.touched_pass = pass;
  }
  void do_destroy(Rec &t) {
    note_retire(t);
    TRACE("  destroy %s", evname(t).c_str());
    delete t.ev; t.ev = nullptr; t.alive = false; t.enabled = false; if (pass_open) t.touched_pass = pass;
    if (--fds[t.fdi].nalive == 0 && in_cb) { freed_this_pass = true; fl.freed_in_cb = true; }
  }

  std::shared_ptr<Rec> pick_event(const Rec *self, int tk, int sel) const {
    if (!self && (tk == T_SELF || tk == T_SAMEFD)) tk = T_RAW;
    std::vector<int> cand;
    for (auto &e : evs) {
      if (!e->alive || e->doomed) continue;
      bool is_self = self && e.get() == self;
      bool other_fd = !self || e->fdi != self->fdi;
      bool ok = false;
      switch (tk) {
        case T_SELF: ok = is_self; break;
        case T_SAMEFD: ok = !is_self && !other_fd; break;
        case T_HOT: ok = !is_self && other_fd && hot_now(e->fdi); break;
        case T_COLD: ok = !is_self && other_fd && !hot_now(e->fdi); break;
        default: ok = true; break;
      }
      if (ok) cand.push_back(e->idx);
    }
    if (cand.empty()) return nullptr;
    return evs[cand[sel % (int)cand.size()]];
  }
  int pick_fd(const Rec *self, int tk, int sel, bool prefer_empty, bool closed_too = false) const {
    if (!self && (tk == T_SELF || tk == T_SAMEFD)) tk = T_RAW;
    std::vector<int> cand, empty;
    for (int i = 0; i < (int)fds.size(); ++i) {
      if (fds[i].w < 0 && !closed_too) continue;
      bool own = self && self->fdi == i;
      bool ok = false;
      switch (tk) {
        case T_SELF: case T_SAMEFD: ok = own; break;
        case T_HOT: ok = !own && hot_now(i); break;
        case T_COLD: ok = !own && !hot_now(i); break;
        default: ok = true; break;
      }
      if (ok) { cand.push_back(i); if (fds[i].nalive == 0) empty.push_back(i); }
    }
    if (prefer_empty && tk == T_RAW && !empty.empty()) return empty[sel % (int)empty.size()];
    if (cand.empty()) return -1;
    return cand[sel % (int)cand.size()];
  }
  // a callback touched event t (not the acting one): bookkeeping for the order-independence classification and the classes
  void touch(const Rec *self, const Rec &t, bool kills, bool destroys) {
    if (!self) return;
    fds[t.fdi].targeted = true;
    bool ready = t.enabled && (t.mask & fds[t.fdi].snap) != 0;
    if (t.fdi == self->fdi) { if (kills && t.enabled) { fl.kill_same_fd = true; if (destroys) fl.destroy_same_fd = true; } }
    else if (kills && ready) { fl.kill_other_ready = true; fl.nt = true; if (destroys) fl.destroy_other_ready = true; }
    else if (kills && t.enabled) fl.kill_cold = true;
    if (kills && ready && t.fired_pass != pass) fl.kill_pending = true;
  }

  void do_action(const std::shared_ptr<Rec> &selfp, const DAct &a) {
    Rec *self = selfp.get();
    if (!err.empty()) return;
    TRACE(" %s action %s tk=%d sel=%d arg=%d", self ? "callback" : "outside", kActName[a.action], a.tk, a.sel, a.arg);
    // Attempts count, not effects: whether an action finds a target may itself depend on what another callback did before.
    if (self && a.action != A_DISABLE_SELF && a.action != A_READ && !((a.action == A_ENABLE || a.action == A_DISABLE || (a.action == A_REMODE && ((a.arg >> 3) & 7) == 0)) && a.tk == T_SELF))
      actors.insert(self->fdi);
    switch (a.action) {
      case A_DISABLE_SELF: if (self) do_disable(*self); break;
      case A_ENABLE: {
        auto t = pick_event(self, a.tk, a.sel); if (!t) break;
        if (t.get() != self) { touch(self, *t, false, false); if (self) fl.enable_other = true; }
        else if (self->oneshot) fl.rearm_self = true;
        do_enable(*t); break; }
      case A_DISABLE: {
        auto t = pick_event(self, a.tk, a.sel); if (!t) break;
        if (t.get() != self) touch(self, *t, true, false);
        do_disable(*t); break; }
      case A_DESTROY: {
        auto t = pick_event(self, a.tk, a.sel); if (!t) break;
        if (t.get() == self) {
          // deleting an event inside its own callback is an asserted precondition violation; the documented idiom is a deferred delete
          do_disable(*self); self->doomed = true; fl.deferred_self_delete = true;
          std::shared_ptr<Rec> r = selfp;
          loop->runNext([this, r] { if (r->alive) do_destroy(*r); }, "c03 deferred delete");
        } else { touch(self, *t, true, true); do_destroy(*t); }
        break; }
      case A_CREATE: {
        int f = pick_fd(self, a.tk, a.sel, true); if (f < 0) break;
        bool fresh_record = fds[f].nalive == 0;
        int mask = fix_mask(fds[f].kind, kMaskTab[a.arg & 3] | (((a.arg >> 4) & 1) ? kE : 0));
        if (!new_event(f, mask, (a.arg >> 2) & 1, true, (a.arg >> 3) & 1)) break;
        if (self) { fl.created_in_cb = true; if (f != self->fdi) fds[f].targeted = true; if (fresh_record && freed_this_pass) { fl.realloc_after_free = true; fl.nt = true; } }
        break; }
      case A_REPLACE: {
        auto t = pick_event(self, a.tk, a.sel); if (!t || t.get() == self) break;
        touch(self, *t, true, true);
        int f = t->fdi, mask = t->mask; bool os = t->oneshot;
        do_destroy(*t);
        bool fresh_record = fds[f].nalive == 0;
        if (!new_event(f, mask, os, true)) break;
        if (self) { fl.created_in_cb = true; if (fresh_record && freed_this_pass) { fl.realloc_after_free = true; fl.nt = true; } }
        break; }
      case A_CLOSEFD: {
        int f = pick_fd(self, a.tk, a.sel, false); if (f < 0) break;
        for (auto &e : evs) if (e->alive && e->fdi == f) { if (e.get() != self) touch(self, *e, true, false); do_disable(*e); }   // callers disable first
        TRACE("  close descriptor %d", f);
        nodelay_close(fds[f].w);
        if (f == zero_idx) park0();
        if (self) fl.closefd_in_cb = true;
        break; }
      case A_READ: {
        if (!self || fds[self->fdi].w < 0) break;
        int n = 1 + a.arg % 3000;
        if (fds[self->fdi].kind == PIPE_W) wr(fds[self->fdi].w, n);
        else { char b[3000]; ssize_t r = ::read(fds[self->fdi].w, b, n); (void)r; }
        fl.read_in_cb = true; break; }
      case A_REINIT: {
        // not in the statement's list of actions; generated (rarely) because the repo's own mqtt client re-initialises
        // an event onto a new socket from inside that event's callback, and fix 01 must stay safe under it
        std::shared_ptr<Rec> t = selfp ? selfp : pick_event(nullptr, T_RAW, a.sel);
        if (!t) break;
        int f = pick_fd(self, a.tk, a.arg, false); if (f < 0 || f == t->fdi) break;
        TRACE("  move %s to descriptor %d", evname(*t).c_str(), f);
        bool was_last = fds[t->fdi].nalive == 1;
        do_disable(*t);
        int mask = fix_mask(fds[f].kind, t->mask);
        if (!do_initialize(*t, f, mask, (self && (a.sel & 1)) ? !t->oneshot : t->oneshot)) break;
        fds[t->fdi].nalive--; if (was_last && in_cb) { freed_this_pass = true; fl.freed_in_cb = true; }
        t->fdi = f; t->mask = mask; fds[f].nalive++; fds[f].passmask |= mask;
        if (self) { fds[f].targeted = true; fl.reinit_in_cb = true; }
        do_enable(*t);
        break; }
      case A_RECYCLE: {
        int f = pick_fd(self, a.tk, a.sel, false, true); if (f < 0) break;
        FdSt &F = fds[f];
        bool retire_first = a.arg & 1, destroy = a.arg & 2; int watch = (a.arg >> 2) & 3, sub = a.arg >> 4;
        bool had_enabled = false;
        auto retire = [&] {
          for (auto &e : evs) if (e->alive && e->fdi == f) {
            if (e->enabled) had_enabled = true;
            if (e.get() != self) touch(self, *e, true, destroy);
            if (destroy && e.get() != self && !e->doomed) do_destroy(*e); else do_disable(*e);
          }
        };
        TRACE("  recycle descriptor %d (fd %d)%s", f, F.num, retire_first ? ", events retired first" : ", closed while its events are enabled");
        if (retire_first) retire();
        nodelay_close(F.w); nodelay_close(F.p);
        if (!retire_first) { retire(); if (had_enabled) fl.close_before_retire = true; }
        // the new pair: the lowest free number >= the old one IS the old one
        if (f == zero_idx) unpark0();
        if (!open_pair(f, F.num)) break;
        if (F.w != F.num) { fail("harness: the descriptor number was not re-used"); break; }
        F.gen++;
        if (self) { fl.recycle_in_cb = true; if (f != self->fdi) F.targeted = true; } else fl.recycle_outside = true;
        std::vector<int> old; for (auto &e : evs) if (e->alive && !e->doomed && e->fdi == f) old.push_back(e->idx);
        if (watch == 3) break;
        if (watch == 2 || old.empty()) {
          if ((int)evs.size() < kMaxEv && !old.empty()) fl.new_event_old_alive = true;
          new_event(f, fix_mask(F.kind, (kMaskTab[sub & 3] ? kMaskTab[sub & 3] : kR) | (((sub >> 3) & 1) ? kE : 0)), (sub >> 2) & 1, true);
        } else {
          Rec &t = *evs[old[sub % (int)old.size()]];
          if (watch == 1 && !do_initialize(t, f, t.mask, t.oneshot)) break;
          fl.rewatch_old_object = true;
          do_enable(t);
        }
        break; }
      case A_REMODE: {
        // re-initialise in place: same descriptor, possibly another mode (round 4) and/or another mask (round 6)
        auto t = pick_event(self, a.tk, a.sel); if (!t || fds[t->fdi].w < 0) break;
        bool was_enabled = t->enabled, was_oneshot = t->oneshot, fired_before = t->fires > 0;
        bool want = (a.arg & 3) == 0 ? !was_oneshot : (a.arg & 3) == 1 ? was_oneshot : (a.arg & 3) == 2;
        int old_mask = t->mask, rw = old_mask & (kR | kW), new_mask = old_mask;
        switch ((a.arg >> 3) & 7) {   // 1..6 work on the read/write part and keep a subscribed kExceptEvent
          case 1: new_mask = kR | (old_mask & kE); break; case 2: new_mask = kW | (old_mask & kE); break; case 3: new_mask = kR | kW | (old_mask & kE); break;
          case 4: new_mask = ((rw == kR) ? kW : (rw == kW) ? kR : (rw == (kR | kW)) ? kR : kW) | (old_mask & kE); break;   // swap / narrow
          case 5: new_mask = old_mask | kR | kW; break;                                                                  // widen
          case 6: new_mask = old_mask & kE; break;
          case 7: new_mask = old_mask ^ kE; break;                                                                       // subscribe / unsubscribe kExceptEvent
          default: break;
        }
        new_mask = fix_mask(fds[t->fdi].kind, new_mask);
        // a sibling of the acting event that is ready, enabled and not yet served in this pass loses the ready condition
        bool pending_victim = self && t.get() != self && t->fdi == self->fdi && t->enabled && t->fired_pass != pass &&
                              (old_mask & fds[t->fdi].snap) && !(new_mask & fds[t->fdi].snap);
        if (t.get() != self) touch(self, *t, false, false);
        do_disable(*t);
        if (!do_initialize(*t, t->fdi, new_mask, want)) break;
        if (new_mask != old_mask) {
          fl.remask = true;
          if (self) fl.remask_in_cb = true;
          if (self && t.get() != self && t->fdi == self->fdi) fl.remask_sibling_in_cb = true;
          if (pending_victim && (was_enabled || (a.arg & 4))) fl.remask_pending_sibling_loses_ready_condition = true;
          if (!(new_mask & fds[t->fdi].snap) && new_mask) fl.remask_to_not_ready_condition = true;
        }
        if (t->oneshot != was_oneshot) { (t->oneshot ? fl.remode_to_oneshot : fl.remode_to_persist) = true; (fired_before ? fl.remode_second_life : fl.remode_fresh) = true; }
        else fl.remode_same = true;
        if (self) fl.remode_in_cb = true;
        if (was_enabled || (a.arg & 4)) do_enable(*t);
        break; }
    }
  }

  // ---- the callback: oracle first, then the scripted actions
  void fire(const std::shared_ptr<Rec> &r, short events) {
    if (!err.empty() || done) return;   // after the first violation nothing more is touched
    TRACE("callback %s reported 0x%x", evname(*r).c_str(), (unsigned)events);
    if (!r->alive) { fail("callback on destroyed " + evname(*r)); return; }
    if (!r->enabled) {
      fail("callback on " + evname(*r) + " which was disabled before (model: disabled, isEnabled()=" + (r->ev->isEnabled() ? "true" : "false") + ")");
      return;
    }
    bool real = r->ev->isEnabled();
    if (r->oneshot) {
      if (real) { fail("one-shot " + evname(*r) + " is still enabled inside its callback"); return; }
      r->enabled = true; note_retire(*r);
      r->enabled = false; fl.oneshot_fired = true;
    } else if (!real) { fail("isEnabled() is false on entry to the callback of persistent " + evname(*r)); return; }
    FdSt &f = fds[r->fdi];
    int m = events & r->mask;
    if (f.w < 0) { fail("callback on " + evname(*r) + " whose descriptor has been closed (all its events were disabled first)"); return; }
    if (!(m & f.snap)) {
      char b[160]; snprintf(b, sizeof b, ": reported mask 0x%x, subscribed 0x%x, descriptor readiness at the start of the pass 0x%x", (unsigned)events, (unsigned)r->mask, (unsigned)f.snap);
      fail("callback on " + evname(*r) + " although its descriptor was not ready for a subscribed condition" + b);
      return;
    }
    for (auto &o : evs) if (o.get() != r.get() && o->fdi == r->fdi && o->fired_pass == pass) fl.shared_fd_fired = true;
    r->fired_pass = pass;
    if (f.gen > 0) fl.cb_on_recycled = true;
    if (zero_active && r->fdi == zero_idx && f.w == 0) fl.cb_on_fd0 = true;
    trace[pass].push_back({r->idx, m});
    fl.callbacks++;
    int k = r->fires++; if (k > 3) k = 3;
    in_cb = true;
    for (auto &c : d.cbs[r->idx]) if (c.firing == k) do_action(r, c.act);
    in_cb = false;
  }

  // ---- passes
  void begin_pass(int k) {
    pass = k; trace.emplace_back(); dep.push_back(0); ambiguous.push_back(0);
    for (auto &st : d.passes[k]) { if (st.is_rdy) apply_rdy(st); else do_action(nullptr, st.act); }
    snapshot();
    freed_this_pass = false; actors.clear();
    int hot = 0;
    for (int i = 0; i < (int)fds.size(); ++i) {
      fds[i].passmask = mask_now(i); fds[i].targeted = false;
      int en = 0; for (auto &r : evs) if (r->alive && r->enabled && r->fdi == i) en |= r->mask;
      if (fds[i].w >= 0 && (en & fds[i].snap)) ++hot;
      // error condition (write end of a pipe without reader): epoll reports it as EPOLLERR -> kExceptEvent, select as
      // "readable and writable"; exception events are outside the statement, so the back-ends are not compared from here on
      if (fds[i].snap_err && fds[i].passmask) { ambiguous[k] = 1; fl.err_ambiguous = true; }
    }
    if (hot >= 2) fl.multi_ready = true;
    // obligations of this pass (liveness, per back-end): enabled now, descriptor ready for a subscribed condition now
    for (auto &r : evs) {
      r->obliged = r->alive && r->enabled && fds[r->fdi].w >= 0 && !fds[r->fdi].snap_err && (r->mask & fds[r->fdi].snap) != 0;
      if (r->obliged) fl.obligations = true;
    }
    pass_open = true;
  }
  void end_pass(int k) {
    // order-independent pass: no callback touched another event of a descriptor that is ready in this pass, and the
    // callbacks of at most one descriptor did anything beyond their own event (two such actors need not commute:
    // one creates an event on an idle descriptor, the other destroys "an event of an idle descriptor")
    for (auto &f : fds) if (f.targeted && (f.snap & f.passmask)) dep[k] = 1;
    if (actors.size() >= 2) dep[k] = 1;
    pass_open = false;
    // An event that was enabled on a descriptor ready for a subscribed condition when the wait of this pass was entered,
    // and that nobody enabled / disabled / re-initialised / destroyed while the pass was served, has had its callback.
    for (auto &r : evs) if (r->obliged && err.empty() && r->touched_pass != k && r->fired_pass != k)
      fail("no callback in this pass on " + evname(*r) + " although it was enabled, untouched, and its descriptor was ready for a subscribed condition (readiness 0x" + std::to_string(fds[r->fdi].snap) + ")");
    for (auto &r : evs) if (r->alive && err.empty()) {
      bool real = r->ev->isEnabled();
      if (real != r->enabled) fail("after the pass isEnabled() of " + evname(*r) + " is " + (real ? "true" : "false") + ", the model says " + (r->enabled ? "enabled" : "disabled"));
    }
  }
  void go() {
    if (!setup()) return;
    int np = (int)d.passes.size();
    try {
      if (d.mode == 1) {
        for (int k = 0; k < np && err.empty(); ++k) {
          begin_pass(k);
          if (!err.empty()) break;
          if (interrupt_this_pass(k)) {
            // one loop round whose wait blocks until the signal arrives: EINTR (or, if the signal came before the wait
            // was entered, the wake pipe is readable and its event fires)
            wake_fired = false;
            arm(d.intr[k]);
            loop->runLoop(Loop::Mode::kOnce);
            disarm();
            if (!wake_fired) fl.intr_eintr = true;
            drain(wk_r);
          } else {
            loop->runNext([] {}, "c03 keep the pass from blocking");
            loop->runLoop(Loop::Mode::kOnce);
          }
          end_pass(k);
        }
      } else {
        // the virtual-loop driver of vloop.h (a task re-posted with runNext once per pass), extended by passes whose wait
        // is not kept from blocking: there the wake event's callback re-posts the task
        tick = [this, np] {
          if (done) return;
          end_pass(pass);
          if (!err.empty() || pass + 1 >= np) { loop->exitLoop(); return; }
          begin_pass(pass + 1);
          if (!err.empty()) { loop->exitLoop(); return; }
          if (interrupt_this_pass(pass)) { waiting_intr = true; arm_count = (int64_t)loop->getStat().loop_count; arm(d.intr[pass]); }
          else loop->runNext(tick, "c03 tick");
        };
        begin_pass(0);
        if (err.empty()) {
          if (interrupt_this_pass(0)) { waiting_intr = true; arm_count = -1; arm(d.intr[0]); }
          else loop->runNext(tick, "c03 tick");
          loop->runLoop(Loop::Mode::kForever);
        }
      }
    } catch (const std::exception &e) {
      fail(std::string("runLoop() let an exception escape: ") + e.what());
    }
    done = true;
    tick = nullptr;
  }
};

std::string show(std::vector<std::pair<int, int>> v) {
  std::string s = "{";
  for (auto &p : v) { char b[32]; snprintf(b, sizeof b, "%sev%d:%s%s%s", s.size() > 1 ? " " : "", p.first, (p.second & kR) ? "R" : "", (p.second & kW) ? "W" : "", (p.second & kE) ? "E" : ""); s += b; }
  return s + "}";
}

std::string run(const Scenario &s, CaseInfo &info) {
  static bool once = [] { signal(SIGPIPE, SIG_IGN); return true; }(); (void)once;
  Def d = parse(s);
  Flags fl;
  SigGuard sig; if (d.has_intr) sig.install();
  std::vector<std::vector<std::pair<int, int>>> tr[2]; std::vector<char> dep[2], amb[2];
  const char *eng[2] = {"epoll", "select"};
  std::string err;
  for (int b = 0; b < 2 && err.empty(); ++b) {
    if ((d.engines == 1 && b == 1) || (d.engines == 2 && b == 0)) continue;
    Run r(d, eng[b], fl);
    r.go();
    err = r.err;
    tr[b] = std::move(r.trace); dep[b] = std::move(r.dep); amb[b] = std::move(r.ambiguous);
  }
  size_t compared = 0;
  if (err.empty() && d.engines == 0) {
    size_t n = std::min(tr[0].size(), tr[1].size());
    for (size_t k = 0; k < n; ++k) {
      if (dep[0][k] || dep[1][k] || amb[0][k] || amb[1][k]) break;
      auto a = tr[0][k], b = tr[1][k];
      std::sort(a.begin(), a.end()); std::sort(b.begin(), b.end());
      if (a != b) { err = "differential, pass " + std::to_string(k) + " (order-independent so far): epoll delivered " + show(a) + ", select delivered " + show(b); break; }
      ++compared;
    }
    stats().counters["diff_passes_compared"] += compared;
    if (compared == n) info.cls("order_independent_whole_case");
  }
  if (fl.err_ambiguous) stats().counters["err_ambiguous_cases"]++;
  stats().counters["callbacks"] += (uint64_t)fl.callbacks;
  info.cls_if(fl.callbacks == 0, "no_callback_at_all");
  info.cls_if(fl.multi_ready, "pass_with_2+_ready_descriptors");
  info.cls_if(fl.shared_fd_fired, "2+_events_of_one_descriptor_fired_in_one_pass");
  info.cls_if(fl.kill_same_fd, "cb_disables_or_destroys_enabled_event_same_descriptor");
  info.cls_if(fl.destroy_same_fd, "cb_destroys_enabled_event_same_descriptor");
  info.cls_if(fl.kill_other_ready, "cb_disables_or_destroys_event_of_other_ready_descriptor");
  info.cls_if(fl.destroy_other_ready, "cb_destroys_event_of_other_ready_descriptor");
  info.cls_if(fl.kill_pending, "victim_was_ready_and_not_yet_served_in_this_pass");
  info.cls_if(fl.kill_cold, "cb_disables_or_destroys_event_of_not_ready_descriptor");
  info.cls_if(fl.freed_in_cb, "cb_destroys_last_event_of_a_descriptor");
  info.cls_if(fl.realloc_after_free, "record_freed_and_new_record_allocated_in_one_pass");
  info.cls_if(fl.enable_other, "cb_enables_other_event");
  info.cls_if(fl.rearm_self, "one_shot_rearms_itself");
  info.cls_if(fl.created_in_cb, "cb_creates_event");
  info.cls_if(fl.closefd_in_cb, "cb_disables_all_and_closes_descriptor");
  info.cls_if(fl.oneshot_fired, "one_shot_fired");
  info.cls_if(fl.deferred_self_delete, "deferred_self_delete");
  info.cls_if(fl.read_in_cb, "cb_reads_or_writes_own_descriptor");
  info.cls_if(fl.reinit_in_cb, "cb_moves_itself_to_another_descriptor");
  info.cls_if(fl.hup, "peer_closed_hangup");
  info.cls_if(fl.unwritable, "unwritable_descriptor");
  info.cls_if(fl.remode_to_oneshot, "reinit_same_fd_mask_persist_to_oneshot");
  info.cls_if(fl.remode_to_persist, "reinit_same_fd_mask_oneshot_to_persist");
  info.cls_if(fl.remode_same, "reinit_same_everything");
  info.cls_if(fl.remode_second_life, "reinit_mode_change_after_event_fired");
  info.cls_if(fl.remode_fresh, "reinit_mode_change_before_first_callback");
  info.cls_if(fl.init_twice, "initialize_twice_at_creation");
  info.cls_if(fl.remode_in_cb, "reinit_in_place_inside_callback");
  info.cls_if(fl.except_mask, "event_subscribes_kExceptEvent");
  info.cls_if(fl.e_retired_w_sibling, "kExceptEvent_subscriber_retired_on_descriptor_with_write_subscriber");
  info.cls_if(d.zero != 0, "harness_descriptor_on_number_0");
  info.cls_if(fl.cb_on_fd0, "callback_on_descriptor_number_0");
  info.cls_if(fl.remask, "reinit_same_fd_new_mask");
  info.cls_if(fl.remask_in_cb, "reinit_same_fd_new_mask_inside_callback");
  info.cls_if(fl.remask_sibling_in_cb, "cb_reinits_sibling_on_same_descriptor_with_new_mask");
  info.cls_if(fl.remask_pending_sibling_loses_ready_condition, "pending_sibling_reenabled_without_the_ready_condition");
  info.cls_if(fl.remask_to_not_ready_condition, "new_mask_only_has_conditions_the_descriptor_is_not_ready_for");
  info.cls_if(fl.recycle_in_cb, "descriptor_recycled_in_callback");
  info.cls_if(fl.recycle_outside, "descriptor_recycled_between_passes");
  info.cls_if(fl.close_before_retire, "descriptor_closed_while_events_enabled_then_retired");
  info.cls_if(fl.rewatch_old_object, "recycled_number_watched_by_old_object");
  info.cls_if(fl.new_event_old_alive, "recycled_number_watched_by_new_event_while_old_object_exists");
  info.cls_if(fl.cb_on_recycled, "callback_on_recycled_descriptor");
  info.cls_if(fl.intr_blocked, "pass_blocks_in_wait_until_signal");
  info.cls_if(fl.intr_eintr, "wait_interrupted_by_signal_EINTR");
  info.cls_if(fl.intr_eintr && fl.intr_with_enabled_idle, "EINTR_with_enabled_events_on_not_ready_descriptors");
  info.cls_if(fl.intr_not_blocking, "intr_requested_but_something_ready");
  info.cls_if(compared > 0, "differential_compared_1+_passes");
  info.cls_if(d.mode == 1, "mode_kOnce_per_pass");
  info.nontrivial = fl.nt;
  return err;
}

#ifndef VERIF_ENGINE_FUZZ
// Seed-corpus writer (maintenance aid, off unless VERIF_C03_DUMP_DIR is set): non-trivial generated cases in the byte
// encoding understood by verif::default_decode, for corpus/C03/fdevents/.
void dumpSeed(const Scenario &s, const std::vector<int> &arity) {
  static const char *dir = getenv("VERIF_C03_DUMP_DIR");
  static int written = 0;
  if (!dir || written >= 48) return;
  std::string b;
  for (auto &op : s.ops) {
    b += (char)op.code;
    for (int k = 0; k < arity[op.code]; ++k) {
      int64_t v = op.arg(k);
      if (v >= 0 && v < 128) { b += (char)v; continue; }
      uint64_t u = v < 0 ? 0 - (uint64_t)v : (uint64_t)v; int n = 1; while (n < 8 && (u >> (8 * n))) ++n;
      b += (char)(0x80 | ((n - 1) << 4) | (v < 0 ? 1 : 0));
      for (int j = n - 1; j >= 0; --j) b += (char)(u >> (8 * j));
    }
  }
  if (b.size() > 700) return;
  char name[600]; snprintf(name, sizeof name, "%s/gen-%016llx.bin", dir, (unsigned long long)fnv1a(b));
  write_file(name, b); ++written;
}
#endif

SubDef def = [] {
  SubDef d; d.name = "fdevents";
  d.op_names = {"cfg", "fd", "ev", "pass", "rdy", "out", "cb", "intr"};   // action 8 (re-initialize) shares the cb/out ops
  d.op_arity = {3, 1, 4, 0, 3, 4, 6, 1};
  d.nt_rule = "some pass had >= 2 ready descriptors and a callback disabled/destroyed an enabled event of another ready descriptor, "
              "or a callback destroyed the last event of a descriptor and a new shared record was allocated in the same pass";
#ifndef VERIF_ENGINE_FUZZ
  std::vector<int> arity = d.op_arity;
  d.run = [arity](const Scenario &s, CaseInfo &info) {
    std::string e = run(s, info);
    static const bool only_intr = getenv("VERIF_C03_DUMP_INTR") != nullptr;   // seeds with an interrupted wait only
    bool intr = false; for (auto c : info.classes) if (!strcmp(c, "wait_interrupted_by_signal_EINTR")) intr = true;
    if (e.empty() && (only_intr ? intr : info.nontrivial)) dumpSeed(s, arity);
    return e;
  };
  d.gen = [] {
    // one rapidcheck-chosen number is expanded deterministically (cheap under ASan); shrinking works on the op list
    auto expand = [](int64_t seed) -> Scenario {
      uint64_t st = (uint64_t)seed * 0x9E3779B97F4A7C15ull + 0x7654321ull;
      auto next = [&st]() -> uint64_t { uint64_t z = (st += 0x9E3779B97F4A7C15ull); z = (z ^ (z >> 30)) * 0xBF58476D1CE4E5B9ull; z = (z ^ (z >> 27)) * 0x94D049BB133111EBull; return z ^ (z >> 31); };
      auto rng = [&next](int64_t lo, int64_t hi) -> int64_t { return lo + (int64_t)(next() % (uint64_t)(hi - lo + 1)); };
      auto pick = [&rng](std::initializer_list<std::pair<int, int64_t>> w) -> int64_t {
        int total = 0; for (auto &p : w) total += p.first;
        int64_t x = rng(0, total - 1);
        for (auto &p : w) { if (x < p.first) return p.second; x -= p.first; }
        return 0;
      };
      Scenario sc; auto &v = sc.ops;
      auto mk = [&v](int code, std::vector<int64_t> a) { Op o; o.code = code; o.a = std::move(a); v.push_back(std::move(o)); };
      // a third of the cases only uses actions that keep the case order-independent (differential volume)
      bool independent = rng(0, 2) == 0;
      mk(CFG, {rng(0, 1), rng(0, 119) + (rng(0, 5) == 0 ? 120 * rng(1, 5) : 0), 0});
      int nf = (int)pick({{4, 2}, {4, 3}, {2, 4}, {1, 5}});
      std::vector<int> kind(nf);
      for (int i = 0; i < nf; ++i) { kind[i] = (int)pick({{4, PIPE_R}, {1, PIPE_W}, {4, SOCK}}); mk(FD, {kind[i]}); }
      int ne = (int)pick({{1, 1}, {3, 2}, {4, 3}, {4, 4}, {3, 5}, {2, 6}, {1, 7}, {1, 8}});
      std::vector<int> evfd(ne);
      for (int i = 0; i < ne; ++i) {
        int64_t f = i < nf && rng(0, 2) ? i : rng(0, nf - 1);   // most descriptors get an event, several share one
        evfd[i] = (int)f;
        mk(EV, {f, pick({{12, 0}, {4, 1}, {6, 2}, {0 + (rng(0, 7) == 0), 3}, {3, 4}, {3, 5}, {2, 6}, {0 + (rng(0, 3) == 0), 7}}), pick({{7, 0}, {3, 1}}), pick({{16, 0}, {2, 1}, {2, 2}, {0 + (rng(0, 3) == 0), 3}})});
      }
      int actor_fd = (int)rng(0, nf - 1);   // independent family: only this descriptor's callbacks act beyond their own event
      auto action = [&](bool local_only) -> std::vector<int64_t> {
        if (independent) {
          switch (local_only ? pick({{3, 0}, {3, 2}, {4, 6}, {3, 7}}) : pick({{2, 0}, {4, 1}, {2, 2}, {2, 3}, {3, 4}, {2, 5}, {3, 6}, {2, 7}, {1, 8}, {2, 9}})) {
            case 0: return {A_DISABLE_SELF, 0, 0, 0};
            case 1: return {pick({{2, A_ENABLE}, {3, A_DISABLE}, {3, A_DESTROY}, {2, A_REPLACE}}), T_COLD, rng(0, 7), 0};
            case 2: return {A_ENABLE, T_SELF, 0, 0};
            case 3: return {A_DESTROY, T_SELF, 0, 0};
            case 7: return {A_REMODE, T_SELF, 0, rng(0, 7)};
            case 8: return {A_REMODE, T_COLD, rng(0, 7), rng(0, 63)};
            case 9: return {A_RECYCLE, T_COLD, rng(0, 7), rng(0, 255)};
            case 4: return {A_CREATE, T_COLD, rng(0, 7), rng(0, 15)};
            case 5: return {A_CLOSEFD, T_COLD, rng(0, 7), 0};
            default: return {A_READ, 0, 0, pick({{3, 0}, {2, -1}}) < 0 ? rng(0, 2999) : rng(0, 8)};
          }
        }
        int64_t a = pick({{2, A_DISABLE_SELF}, {3, A_ENABLE}, {5, A_DISABLE}, {5, A_DESTROY}, {2, A_CREATE}, {4, A_REPLACE}, {1, A_CLOSEFD}, {3, A_READ}, {1, A_REINIT}, {4, A_REMODE}, {3, A_RECYCLE}});
        if (a == A_RECYCLE) return {a, pick({{5, T_SELF}, {1, T_HOT}, {2, T_COLD}, {1, T_RAW}}), rng(0, 15), rng(0, 255)};
        if (a == A_REMODE) {   // half of them with a new mask, mostly on a sibling of the same descriptor
          bool remask = rng(0, 1);
          int64_t tkr = remask ? pick({{9, T_SAMEFD}, {2, T_HOT}, {1, T_COLD}, {1, T_RAW}, {2, T_SELF}}) : pick({{2, T_SAMEFD}, {2, T_HOT}, {1, T_COLD}, {1, T_RAW}, {4, T_SELF}});
          return {a, tkr, rng(0, 15), rng(0, 7) + (remask ? 8 * pick({{1, 1}, {3, 2}, {1, 3}, {6, 4}, {1, 5}, {1, 6}, {2, 7}}) : 0)};
        }
        int64_t tk = a == A_REMODE ? pick({{2, T_SAMEFD}, {2, T_HOT}, {1, T_COLD}, {1, T_RAW}, {4, T_SELF}}) : pick({{3, T_SAMEFD}, {6, T_HOT}, {2, T_COLD}, {2, T_RAW}, {1, T_SELF}});
        return {a, tk, rng(0, 15), a == A_READ ? (rng(0, 1) ? rng(0, 8) : rng(0, 2999)) : rng(0, 15) + (a == A_CREATE && rng(0, 3) == 0 ? 16 : 0)};
      };
      int ncb = (int)rng(ne, 3 * ne);
      for (int i = 0; i < ncb; ++i) {
        int64_t e = rng(0, 3) ? rng(0, ne - 1) : rng(0, ne + 3);
        auto a = action(e >= ne || evfd[e] != actor_fd);
        mk(CB, {e, pick({{6, 0}, {3, 1}, {1, 2}, {2, 3}}), a[0], a[1], a[2], a[3]});
      }
      int np = (int)pick({{1, 1}, {3, 2}, {4, 3}, {3, 5}, {2, 8}});
      // a fifth of the cases has one pass whose wait is interrupted by a signal: everything is drained / filled first so
      // that (unless a peer hung up) no descriptor is ready and the loop really blocks
      int intr_pass = rng(0, 4) == 0 ? (int)rng(0, np - 1) : -1;
      for (int p = 0; p < np; ++p) {
        if (p) mk(PASS, {});
        if (p == intr_pass) {
          for (int i = 0; i < nf; ++i) {
            if (kind[i] != PIPE_W) mk(RDY, {i, R_DRAIN, 1});
            if (kind[i] != PIPE_R) mk(RDY, {i, R_FILL, 1});
          }
          if (p && rng(0, 2) == 0) mk(OUT, {A_ENABLE, T_RAW, rng(0, 15), 0});
          mk(INTR, {rng(0, 2)});
          continue;
        }
        for (int i = 0; i < nf; ++i) {
          int64_t what = pick({{p == 0 ? 8 : 4, R_WRITE}, {6, -1}, {1, R_DRAIN}, {1, R_FILL}, {1, R_UNFILL}, {p ? 1 : 0, R_CLOSEPEER}});
          if (what >= 0) mk(RDY, {i, what, pick({{3, 1}, {3, -1}}) < 0 ? rng(1, 3000) : rng(1, 10)});
        }
        if (p && rng(0, 3) == 0) {
          int64_t a = pick({{4, A_ENABLE}, {2, A_DISABLE}, {1, A_DESTROY}, {2, A_CREATE}, {1, A_REPLACE}, {1, A_CLOSEFD}, {3, A_REMODE}, {3, A_RECYCLE}});
          mk(OUT, {a, T_RAW, rng(0, 15), a == A_RECYCLE ? rng(0, 255) : a == A_REMODE ? rng(0, 63) : rng(0, 7)});
        }
      }
      return sc;
    };
    auto base = rc::gen::map(rc::gen::noShrink(range(0, (int64_t)1 << 62)), expand);
    return rc::gen::shrink(base, [](const Scenario &s) {
      std::vector<Scenario> out;
      size_t n = s.ops.size();
      for (size_t chunk = n / 2; chunk >= 1; chunk /= 2) {
        for (size_t at = 0; at + chunk <= n; at += chunk) {
          Scenario t; t.ops.reserve(n - chunk);
          for (size_t i = 0; i < n; ++i) if (i < at || i >= at + chunk) t.ops.push_back(s.ops[i]);
          out.push_back(std::move(t));
        }
        if (chunk == 1) break;
      }
      for (size_t i = 0; i < n; ++i)
        for (size_t k = 0; k < s.ops[i].a.size(); ++k)
          if (s.ops[i].a[k] != 0) { Scenario t = s; t.ops[i].a[k] = 0; out.push_back(std::move(t)); }
      return rc::seq::fromContainer(std::move(out));
    });
  };
#else
  d.run = run;
#endif
  return d;
}();
VERIF_REGISTER(&def);
}  // namespace
