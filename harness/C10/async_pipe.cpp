// C10 — tbox::util::AsyncPipe: lossless, ordered, contiguous appends; sink callbacks never overlap;
// cleanup flushes everything and returns.  Real producer threads, generated pauses, schedule-point
// perturbation (hook H4), ThreadSanitizer.
//
// Byte scheme: byte k (running count per producer) of producer p is (p << 5) | (k & 31), so every byte of
// the output identifies its producer, and the oracle can parse the concatenated sink blocks greedily into
// whole appends (an append of a lock group = the concatenation of its lockless appends).
#define VERIF_MAIN
#include "../common/verif.h"
#include <tbox/util/async_pipe.h>
#include <tbox/base/verif_hooks.h>
#include <thread>
#include <atomic>
#include <mutex>
#include <chrono>

using namespace verif;
using tbox::util::AsyncPipe;

namespace {
enum { CFG, SCHED, APP, GROUP, PAUSE, LIFE, NOPS };
const int kMaxProd = 6;
const int64_t kBuffSizes[] = {1, 2, 3, 7, 64, 1024};
const int64_t kIntervals[] = {1, 5, 50, 3600000};
const char *kPoints[] = {"async_pipe.cleanup_before_stop", "async_pipe.producer_wait_free_buffer", "async_pipe.pred_false", "async_pipe.flush_before_trylock"};

struct Step { int kind; std::vector<size_t> sizes; unsigned pause_us; };   // kind 0 append, 1 group, 2 pause

struct SchedEntry { unsigned permille = 0, delay_us = 0; };
SchedEntry g_sched[4];
std::atomic<uint64_t> g_sched_seed{1};
std::atomic<uint64_t> g_sched_hits{0};

void spin_us(unsigned us) {
  if (us == 0) { std::this_thread::yield(); return; }
  if (us >= 200) { std::this_thread::sleep_for(std::chrono::microseconds(us)); return; }
  auto end = std::chrono::steady_clock::now() + std::chrono::microseconds(us);
  while (std::chrono::steady_clock::now() < end) { }
}

void sched_hook(const char *name) {
  static thread_local uint64_t st = 0;
  if (st == 0) st = g_sched_seed.fetch_add(0x9E3779B97F4A7C15ull) | 1;
  for (int i = 0; i < 4; ++i) {
    if (strcmp(name, kPoints[i]) != 0) continue;
    st ^= st << 13; st ^= st >> 7; st ^= st << 17;
    if (g_sched[i].permille && (st % 1000) < g_sched[i].permille) { g_sched_hits++; spin_us(g_sched[i].delay_us); }
    return;
  }
}

size_t pick_size(int64_t mode, int64_t k, size_t buff) {
  switch (mode) {
    case 0: return 0;
    case 1: return 1;
    case 2: return buff > 1 ? buff - 1 : 1;
    case 3: return buff;
    case 4: return buff + 1;
    case 5: return 2 * buff + 1 + (size_t)k % (buff + 1);
    case 6: return (size_t)(k % 7 + 3) * buff + (size_t)k % (buff + 1);
    default: return (size_t)k % 40;
  }
}

struct Life { AsyncPipe::Config cfg; std::vector<Step> script[kMaxProd]; unsigned sink_us = 0; bool cb_first = false; /* setCallback() before initialize() */ bool min0 = false; /* buff_min_num = 0: the unmodified initialize() refuses it */ };

// one life of the pipe object: initialize, producers, cleanup, oracle
std::string run_life(AsyncPipe &pipe, Life &life, int nprod, int life_no, CaseInfo &info, bool &nontrivial) {
  AsyncPipe::Config &cfg = life.cfg; unsigned sink_us = life.sink_us;
  auto &script = life.script;
  // ---- expected appends per producer (logical append = one APP or one whole GROUP)
  std::vector<size_t> expect_len[kMaxProd];
  size_t total = 0; bool big_append = false;
  for (int p = 0; p < nprod; ++p)
    for (auto &st : script[p]) {
      if (st.kind == 2) continue;
      size_t L = 0; for (auto z : st.sizes) L += z;
      expect_len[p].push_back(L); total += L;
      if (L > 2 * cfg.buff_size) big_append = true;
    }

  // ---- run
  std::mutex out_mu; std::string out; std::vector<size_t> block_sizes;
  std::atomic<int> in_cb{0}; std::atomic<bool> overlap{false}, held_lock_over_interval{false}; bool tried_min0 = false;
  {
    // the sink callback may be installed before or after initialize(): the API allows both orders
    // degenerate configuration first: no buffer kept while idle (buff_min_num = 0).  The unmodified initialize() refuses it; if an
    // implementation accepts it, the pipe must work with it like with any other configuration (this life then runs on it)
    bool pre_initialised = false;
    if (life.min0) { AsyncPipe::Config c0 = cfg; c0.buff_min_num = 0; tried_min0 = true; if (pipe.initialize(c0)) { cfg = c0; pre_initialised = true; } }
    if (!life.cb_first && !pre_initialised && !pipe.initialize(cfg)) return "initialize() refused a valid configuration";
    pipe.setCallback([&](const void *p, size_t n) {
      if (in_cb.fetch_add(1) != 0) overlap = true;
      { std::lock_guard<std::mutex> lg(out_mu); out.append((const char *)p, n); block_sizes.push_back(n); }
      if (sink_us) spin_us(sink_us);
      in_cb.fetch_sub(1);
    });
    if (life.cb_first && !pre_initialised && !pipe.initialize(cfg)) return "initialize() refused a valid configuration";
    std::vector<std::thread> th;
    for (int p = 0; p < nprod; ++p) {
      th.emplace_back([&, p] {
        size_t k = 0;   // running byte count of this producer
        auto fill = [&](std::string &b, size_t n) { b.resize(n); for (size_t i = 0; i < n; ++i, ++k) b[i] = (char)((p << 5) | (k & 31)); };
        std::string b;
        for (auto &st : script[p]) {
          if (st.kind == 2) { spin_us(st.pause_us); continue; }
          if (st.kind == 0) { fill(b, st.sizes[0]); pipe.append(b.data(), b.size()); continue; }
          pipe.appendLock();
          for (auto z : st.sizes) { fill(b, z); pipe.appendLockless(b.data(), b.size()); }
          if (st.pause_us) { held_lock_over_interval = true; spin_us(st.pause_us); }   // the producer keeps the append lock for a while (a timed flush meets a held lock)
          pipe.appendUnlock();
        }
      });
    }
    for (auto &t : th) t.join();
    size_t before_cleanup; { std::lock_guard<std::mutex> lg(out_mu); before_cleanup = out.size(); }
    pipe.cleanup();     // a hang here is caught by the per-case watchdog (--case-alarm)
    // everything must be delivered when cleanup() returns: 'out' is read without waiting
    info.cls_if(before_cleanup < total, "cleanup_had_to_flush");
  }
  char buf[300];
  char lifetag[32]; snprintf(lifetag, sizeof lifetag, "life %d: ", life_no);
  if (overlap) return std::string(lifetag) + "sink callbacks overlapped";

  // ---- oracle: greedy parse into whole appends
  size_t next[kMaxProd] = {0}; size_t cnt[kMaxProd] = {0};   // next append index / running byte count per producer
  auto skip_empty = [&](int p) { while (next[p] < expect_len[p].size() && expect_len[p][next[p]] == 0) next[p]++; };
  for (int p = 0; p < nprod; ++p) skip_empty(p);
  size_t pos = 0;
  while (pos < out.size()) {
    int p = ((unsigned char)out[pos]) >> 5;
    if (p >= nprod || next[p] >= expect_len[p].size()) {
      snprintf(buf, sizeof buf, "%soutput offset %zu: byte of producer %d which has nothing (more) to deliver (duplicate or invented data)", lifetag, pos, p); return buf; }
    size_t L = expect_len[p][next[p]];
    if (pos + L > out.size()) { snprintf(buf, sizeof buf, "%soutput offset %zu: append #%zu of producer %d (len %zu) is cut short by end of output (lost bytes)", lifetag, pos, next[p], p, L); return buf; }
    for (size_t i = 0; i < L; ++i) {
      unsigned char e = (unsigned char)((p << 5) | ((cnt[p] + i) & 31));
      if ((unsigned char)out[pos + i] != e) {
        snprintf(buf, sizeof buf, "%soutput offset %zu: append #%zu of producer %d (len %zu) is not contiguous/in order at byte %zu (got 0x%02x, expected 0x%02x)", lifetag, pos, next[p], p, L, i, (unsigned char)out[pos + i], e);
        return buf; }
    }
    pos += L; cnt[p] += L; next[p]++; skip_empty(p);
  }
  for (int p = 0; p < nprod; ++p)
    if (next[p] != expect_len[p].size()) { snprintf(buf, sizeof buf, "%sproducer %d: %zu of %zu appends missing from the output after cleanup() returned", lifetag, p, expect_len[p].size() - next[p], expect_len[p].size()); return buf; }
  if (out.size() != total) return std::string(lifetag) + "output size differs from the total appended";

  bool partial_block = false;
  for (size_t i = 0; i + 1 < block_sizes.size(); ++i) if (block_sizes[i] < cfg.buff_size) partial_block = true;
  info.cls_if(nprod >= 2, "multi_producer");
  info.cls_if(big_append, "append_gt_2_buffers");
  info.cls_if(partial_block, "timed_flush_of_partial_buffer");
  info.cls_if(cfg.interval == 3600000, "interval_1h");
  info.cls_if(sink_us > 0, "slow_sink");
  info.cls_if(tried_min0, "initialize_with_buff_min_num_0_tried_first");
  info.cls_if(held_lock_over_interval.load(), "append_lock_held_across_flush_intervals");
  info.cls_if(life_no > 0 && total > 0, "data_in_a_later_life_of_the_same_pipe_object");
  if (nprod >= 2 && total > 0 && (big_append || partial_block || sink_us > 0)) nontrivial = true;
  return "";
}

std::string run(const Scenario &s, CaseInfo &info) {
  // ---- decode: a scenario is 1-3 "lives" of ONE AsyncPipe object (initialize .. cleanup, then initialize again)
  int nprod = 2; uint64_t seed = 1;
  for (auto &e : g_sched) e = SchedEntry();
  std::vector<Life> lives(1);
  auto set_cfg = [](Life &lf, const Op &op, size_t cb_first_arg) {
    lf.cb_first = op.in(cb_first_arg, 0, 1) == 1;
    lf.min0 = op.in(cb_first_arg + 1, 0, 7) == 7;
    lf.cfg.buff_size = (size_t)kBuffSizes[op.in(0, 0, 5)];
    lf.cfg.buff_min_num = (size_t)op.in(1, 1, 3);
    lf.cfg.buff_max_num = lf.cfg.buff_min_num + (size_t)op.in(2, 0, 3);
    lf.cfg.interval = (size_t)kIntervals[op.in(3, 0, 3)];
    lf.sink_us = (unsigned)op.in(5, 0, 3) == 3 ? (unsigned)op.in(6, 0, 300) : 0;
  };
  for (auto &op : s.ops) {
    Life &lf = lives.back();
    switch (op.code) {
      case CFG: set_cfg(lives[0], op, 8); nprod = (int)op.in(4, 1, kMaxProd); seed = (uint64_t)op.in(7, 1, 1 << 30); break;
      case LIFE: if (lives.size() < 3) { lives.emplace_back(); set_cfg(lives.back(), op, 7); } break;
      case SCHED: { auto &e = g_sched[op.in(0, 0, 3)]; e.permille = (unsigned)op.in(1, 0, 1000); e.delay_us = (unsigned)op.in(2, 0, 2000); break; }
      case APP: { Step st; st.kind = 0; st.pause_us = 0; st.sizes.push_back(pick_size(op.in(1, 0, 7), op.in(2, 0, 100000), lf.cfg.buff_size)); lf.script[op.in(0, 0, kMaxProd - 1)].push_back(st); break; }
      case GROUP: { Step st; st.kind = 1; st.pause_us = 0; int n = (int)op.in(1, 1, 3);
        for (int i = 0; i < n; ++i) st.sizes.push_back(pick_size(op.in(2 + i, 0, 7), op.in(5, 0, 100000) + i, lf.cfg.buff_size));
        if (op.in(6, 0, 3) == 3 && lf.cfg.interval <= 50) st.pause_us = (unsigned)(lf.cfg.interval * 2500);   // hold the lock for 2.5 flush intervals after the last lockless append
        lf.script[op.in(0, 0, kMaxProd - 1)].push_back(st); break; }
      case PAUSE: { Step st; st.kind = 2; st.pause_us = (unsigned)op.in(1, 0, 12000); lf.script[op.in(0, 0, kMaxProd - 1)].push_back(st); break; }
      default: break;
    }
  }
  g_sched_seed = seed; g_sched_hits = 0;
  bool nontrivial = false;
  std::string err;
  {
    AsyncPipe pipe;
    tbox::verif::SchedPointHookRef().store(&sched_hook);
    for (size_t li = 0; li < lives.size() && err.empty(); ++li) err = run_life(pipe, lives[li], nprod, (int)li, info, nontrivial);
    tbox::verif::SchedPointHookRef().store(nullptr);
  }
  if (!err.empty()) return err;
  info.cls_if(g_sched_hits.load() > 0, "sched_point_delay_applied");
  info.cls_if(lives.size() > 1, "pipe_object_initialised_again_after_cleanup");
  { bool f = false; for (auto &lf : lives) if (lf.cb_first) f = true; info.cls_if(f, "callback_installed_before_initialize"); }
  info.nontrivial = nontrivial;
  return "";
}

SubDef def = [] {
  SubDef d; d.name = "pipe";
  d.op_names = {"cfg", "sched", "app", "group", "pause", "life"};
  d.op_arity = {10, 3, 3, 7, 2, 9};
  d.nt_rule = ">= 2 producer threads with data, and (an append larger than 2 buffers, or a timed flush of a partial buffer observed as a short block before the end, or a slow sink callback giving back-pressure)";
  d.run = run;
#ifndef VERIF_ENGINE_FUZZ
  d.gen = [] {
    auto prod = range(0, kMaxProd - 1);
    auto mode = range(0, 7);
    auto k = range(0, 100000);
    auto opg = rc::gen::weightedOneOf<Op>({
      {8, mkop(APP, {prod, mode, k})},
      {3, mkop(GROUP, {prod, range(1, 3), mode, mode, mode, k, range(0, 3)})},
      {4, mkop(PAUSE, {prod, rc::gen::weightedOneOf<int64_t>({{2, range(0, 50)}, {2, range(1000, 3000)}, {1, range(5000, 12000)}})})},
      {1, mkop(LIFE, {range(0, 5), range(1, 3), range(0, 3), oneOfValues({0, 0, 0, 1, 1, 2, 3, 3}), range(0, 0), range(0, 3), range(0, 300), range(0, 1), range(0, 7)})},
    });
    auto cfg = mkop(CFG, {range(0, 5), range(1, 3), range(0, 3), oneOfValues({0, 0, 0, 1, 1, 2, 3, 3}), range(1, kMaxProd), range(0, 3), range(0, 300), range(1, 1 << 30), range(0, 1), range(0, 7)});
    auto sched = mkop(SCHED, {range(0, 3), oneOfValues({0, 100, 500, 1000}), oneOfValues({0, 20, 200, 1500})});
    return scenarioOf(fixedOps({cfg, sched, sched, sched}), opsOf(opg));
  };
#endif
  return d;
}();
VERIF_REGISTER(&def);
}  // namespace
