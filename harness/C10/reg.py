TARGETS = {
    "c10_pipe_tsan": {"src": "C10/async_pipe.cpp", "variant": "tsan", "engine": "rc", "libs": ["util", "base"]},
    "c10_pipe_asan": {"src": "C10/async_pipe.cpp", "variant": "asan", "engine": "rc", "libs": ["util", "base"]},
}
PROP = {
    "subchecks": [
        {"target": "c10_pipe_tsan", "sub": "pipe",
         "quick": {"cases": 1500, "max_size": 60, "workers": 8, "case_alarm": 60},
         "thorough": {"cases": 25000, "max_size": 150, "workers": 10, "case_alarm": 60}},
        {"target": "c10_pipe_asan", "sub": "pipe",
         "quick": {"cases": 1500, "max_size": 60, "workers": 4, "case_alarm": 60},
         "thorough": {"cases": 25000, "max_size": 150, "workers": 6, "case_alarm": 60}},
    ],
    "assumptions": ["all producers are joined before cleanup() (an append racing with cleanup is API misuse)",
                    "the callback is installed after initialize() and before the first append, as all in-tree callers do",
                    "a lock group (appendLock .. appendLockless* .. appendUnlock) is one logical append",
                    "interleavings are sampled (real threads + generated pauses + H4 schedule-point delays), not enumerated",
                    "cleanup() termination is checked as a 20 s per-case watchdog that must reproduce in 2 of 3 isolated replays"],
}
META = {
    "design_ref": "DESIGN.md section 4, C10",
    "technique": "PBT over generated multi-thread scenarios (rapidcheck) with schedule-point perturbation, history oracle (greedy parse of the sink output into whole appends), ThreadSanitizer + ASan builds, cleanup watchdog",
    "level_text": "Generated configurations (buffer size from 1 byte, min/max counts, interval 1 ms..1 h), 1-6 real producer threads with generated append sizes/pauses and randomised delays at the H4 schedule points; the oracle parses the concatenated sink blocks into whole appends (contiguity, per-producer order, lossless, no duplicates), checks callbacks never overlap and that everything is delivered when cleanup() returns; TSan reports and watchdog expiries (cleanup with a 1 h interval) are failures. Exploration: interleavings are sampled, not enumerated. Later additions (seeding rounds): 1-3 lives of one pipe object, the callback installed before or after initialize(), grouped appends that keep the append lock across flush intervals, and the buff_min_num = 0 probe.",
    "level_note": "Trusted: TSan/ASan, the byte scheme (top 3 bits = producer, low 5 bits = running count mod 32), OS scheduler for the interleavings actually seen. Limits L2/L3 of DESIGN.md section 1 apply.",
}
