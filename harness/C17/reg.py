_ASAN = ("detect_leaks=1:detect_stack_use_after_return=0:allocator_may_return_null=1:handle_abort=0:symbolize=1:"
         "malloc_context_size=4:quarantine_size_mb=32")
_LIBS = ["flow", "eventx", "event", "util", "base"]
TARGETS = {
    "c17_actions_rc":   {"src": "C17/actions.cpp", "variant": "asan", "engine": "rc",   "libs": _LIBS},
    "c17_actions_fuzz": {"src": "C17/actions.cpp", "variant": "asan", "engine": "fuzz", "libs": _LIBS},
}
PROP = {
    "subchecks": [
        {"target": "c17_actions_rc", "sub": "tree", "env": {"ASAN_OPTIONS": _ASAN},
         "quick": {"cases": 45000, "max_size": 100, "workers": 6, "case_alarm": 60},
         "thorough": {"cases": 400000, "max_size": 100, "workers": 8, "case_alarm": 60}},
        {"target": "c17_actions_rc", "sub": "reset_meta", "env": {"ASAN_OPTIONS": _ASAN},
         "quick": {"cases": 25000, "max_size": 100, "workers": 3, "case_alarm": 60},
         "thorough": {"cases": 250000, "max_size": 100, "workers": 4, "case_alarm": 60}},
        {"target": "c17_actions_rc", "sub": "pause_meta", "env": {"ASAN_OPTIONS": _ASAN},
         "quick": {"cases": 25000, "max_size": 100, "workers": 3, "case_alarm": 60},
         "thorough": {"cases": 250000, "max_size": 100, "workers": 4, "case_alarm": 60}},
        # the 'executor' sub (ActionExecutor smoke test) exists in actions.cpp but is NOT registered: ActionExecutor is outside the
        # property statement, and the defect it finds (cancelCurrent() leaves a stale queue index; proposed-fixes/06, regress input
        # under corpus/C17/outside-statement/) is therefore not repaired in /repo.  Run it by hand: build/h/c17_actions_rc --sub executor
        {"target": "c17_actions_fuzz", "sub": "tree",
         "quick": {"runs": 40000, "max_len": 600, "workers": 2, "unit_timeout": 60},
         "thorough": {"runs": 400000, "max_len": 900, "workers": 2, "unit_timeout": 60}},
    ],
    "assumptions": [
        "every generated tree is isReady(); depth <= 4, <= 20 nodes; control calls (start/pause/resume/stop/reset) go to the root only, from the loop thread, "
        "outside callbacks except resume() inside the root's block callback and stop/reset/start inside the root's finish callback (patterns of the library's own tests / ActionExecutor)",
        "where header pseudo-code and pinned unit tests disagree the tests are the documentation of record: Sequence without a mode trigger returns the last child's result, "
        "Parallel always succeeds, IfElse with the needed branch missing succeeds, Repeat exhaustion succeeds",
        "a Switch selector is always a leaf (the reason message a composite hands up is undocumented); Dummy leaves are told to finish/block only while running",
        "left free: pass counts between cause and effect, start order across Parallel branches, what a paused composite does in 'resume; pause' within one pass, "
        "what resume() does to leaves that blocked on their own, return values of control calls, Sleep timing (real-clock remainder)",
        "timeouts: the reference for setTimeout()/resetTimeout() at arbitrary moments is what action.cpp defines: armed by start()/resume() and by setTimeout() on a running action, "
        "off during pause() and after finish/stop/reset, setTimeout() on a non-running action only takes effect at the next start()/resume(), block() leaves the timer alone, no remainder is kept across a pause",
        "final hooks are not demanded for runs ended by reset() of a tree that was still under way; the functional reference is skipped for runs in which a timeout fired "
        "or which re-run a Parallel that its mode trigger may cut short",
    ],
}
META = {
    "design_ref": "DESIGN.md section 4, C17",
    "technique": "model-based PBT (rapidcheck) + coverage-guided fuzzing (libFuzzer) of generated action trees and control scripts on the production loop under a virtual clock (hook H1): per-node conformance monitors of the documented pseudo-code, a recursive functional reference, after-every-pass invariants, and two metamorphic relations (reset == fresh tree; pause/resume pairs are transparent), under ASan/UBSan",
    "level_text": "Generated trees (depth <= 4, <= 20 nodes) over Sequence/Parallel (3 modes each), IfElse, IfThen, Switch, Loop (3 modes), LoopIf, Repeat (1-4 times, 3 modes), Wrapper (4 modes), Composite with Succ/Fail/Function/Dummy/Sleep leaves (scripted success/failure per run, completion delay, block-then-finish, never) and optional timeouts are driven by generated start/pause/resume/stop/reset scripts on the root, placed at loop passes, in the pass between a child's finish/block and its parent's handling of it, between two notifications of one pass, inside the root's finish callback, plus deletion of the tree at any pass. Every node is observed through a probe subclass (protected virtual hooks only) and the public accessors. Checked at every event and after every pass: each composite starts only the child / finishes only with the result its documented pseudo-code yields from its children's results (and has done so by final quiescence), no start while under way, nothing under a finished/stopped node running or paused, a reset tree all idle and silent, no finish/block accepted by a reset action, no root callback after stop/reset, final hook once per run, state()/result()/index() consistent; per run of the root the result and the series-parallel leaf start order are compared with a recursive reference evaluation; 'prefix; reset; S' must give the same event trace as S on a fresh tree; inserted pause/resume pairs must not change results or leaf starts. Exploration only: no counter-example among N generated cases.",
    "level_note": "Trusted: the per-composite monitors and the recursive reference in harness/C17/actions.cpp (written from the header pseudo-code and the pinned unit tests), the probe subclasses (record and call the base implementation), the virtual clock hook H1, ASan/UBSan. Not compared: pass counts, start order across Parallel branches, reason/trace contents (except Switch case messages), Sleep remainders, return values of control calls. The functional reference is skipped for runs with a fired timeout. Control calls only on the root; no re-entrant calls from leaf callbacks. ActionExecutor only smoke-tested.",
}
