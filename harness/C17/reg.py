_ASAN = ("detect_leaks=1:detect_stack_use_after_return=0:allocator_may_return_null=1:handle_abort=0:symbolize=1:"
         "malloc_context_size=4:quarantine_size_mb=32")
_LIBS = ["flow", "eventx", "event", "util", "base"]
TARGETS = {
    "c17_actions_rc":   {"src": "C17/actions.cpp", "variant": "asan", "engine": "rc",   "libs": _LIBS},
    "c17_actions_fuzz": {"src": "C17/actions.cpp", "variant": "asan", "engine": "fuzz", "libs": _LIBS},
}
PROP = {
    "subchecks": [
        {"target": "c17_actions_rc", "sub": "tree", "env": {"ASAN_OPTIONS": _ASAN},
         "quick": {"cases": 20000, "max_size": 100, "workers": 6, "case_alarm": 60},
         "thorough": {"cases": 400000, "max_size": 100, "workers": 8, "case_alarm": 60}},
        {"target": "c17_actions_rc", "sub": "reset_meta", "env": {"ASAN_OPTIONS": _ASAN},
         "quick": {"cases": 12000, "max_size": 100, "workers": 3, "case_alarm": 60},
         "thorough": {"cases": 250000, "max_size": 100, "workers": 4, "case_alarm": 60}},
        {"target": "c17_actions_rc", "sub": "pause_meta", "env": {"ASAN_OPTIONS": _ASAN},
         "quick": {"cases": 12000, "max_size": 100, "workers": 3, "case_alarm": 60},
         "thorough": {"cases": 250000, "max_size": 100, "workers": 4, "case_alarm": 60}},
        {"target": "c17_actions_fuzz", "sub": "tree",
         "quick": {"runs": 50000, "max_len": 600, "workers": 2, "unit_timeout": 60},
         "thorough": {"runs": 1500000, "max_len": 900, "workers": 2, "unit_timeout": 60}},
    ],
    "assumptions": [],
}
META = {"design_ref": "DESIGN.md section 4, C17", "technique": "", "level_text": "", "level_note": ""}
