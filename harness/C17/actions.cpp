// C17 — action trees finish once with the documented result; nothing is left running.
//
// A scenario is a flat op list: a tree definition (`node` ops, position independent among themselves) plus a control
// script on the ROOT (`ctl` = at a loop pass, `ctlev` = in the pass in which the n-th event of a class happened, i.e.
// between a finish/block and the parent's handling of it, `ctlcb` = posted with runNext() from the n-th leaf start),
// clock advances (`adv`) and, for the metamorphic subs, a prefix script (`pre`) or pause/resume pairs (`pp`).
//
// Real side: every node is the library class wrapped in Probe<> (a subclass that only overrides the protected virtual
// hooks onStart/onStop/onPause/onResume/onReset/onBlock/onFinished/onTimeout to record an event and then calls the
// base implementation; subclassing is the library's documented extension mechanism).  The loop is driven by
// vloop::drive with the virtual clock (hook H1); Dummy leaves are driven by the scenario.
//
// Oracles (see NOTES.md for what is pinned by which header comment / unit test and what is left free):
//  (2) per-node conformance monitors + invariants, evaluated at every event and after every pass:
//      each composite may only start the child / finish with the result that its documented pseudo-code yields from
//      the results of its children seen so far (nothing extra), must have done so by final quiescence (nothing
//      missing), no start while under way, nothing under a finished/stopped node running or paused, everything under
//      an idle (reset) node idle, no finish()/block() accepted by a reset action, no root callback after stop/reset,
//      final hook exactly once per run, state()/result() equal to what the callbacks said.
//  (1) functional reference: a recursive evaluator of the pseudo-code over the scripted leaf outcomes predicts, per
//      run of the root, the result and the (series-parallel) order of leaf starts.
//  (2b) timeout timer model (round 6): setTimeout()/resetTimeout() on any node at any moment; onTimeout only while the model of
//      action.cpp says the timer is armed and due, and an armed overdue timer must have fired by final quiescence.
//  (3) metamorphic subs: `prefix; reset; S` vs `S` on a fresh tree (whole event trace); `S` vs `S + pause/resume pairs`.
#include <nlohmann/json.hpp>
#define VERIF_MAIN
#include "../common/verif.h"
#include "../common/vloop.h"
#include <tbox/flow/action.h>
#include <tbox/flow/action_executor.h>
#include <tbox/flow/actions/sequence_action.h>
#include <tbox/flow/actions/parallel_action.h>
#include <tbox/flow/actions/if_else_action.h>
#include <tbox/flow/actions/if_then_action.h>
#include <tbox/flow/actions/switch_action.h>
#include <tbox/flow/actions/loop_action.h>
#include <tbox/flow/actions/loop_if_action.h>
#include <tbox/flow/actions/repeat_action.h>
#include <tbox/flow/actions/wrapper_action.h>
#include <tbox/flow/actions/composite_action.h>
#include <tbox/flow/actions/function_action.h>
#include <tbox/flow/actions/sleep_action.h>
#include <tbox/flow/actions/dummy_action.h>
#include <tbox/flow/actions/succ_fail_action.h>
#include <algorithm>
#include <memory>

using namespace verif;
using tbox::flow::Action;

namespace {

// Shapes that hit a listed, not-yet-fixed finding are avoided behind these switches (none at present: every
// confirmed defect has a fix in proposed-fixes/, so nothing is avoided).
static const bool kAvoid_none = false;

// ------------------------------------------------------------------------------------------------------ scenario
enum { CFG, NODE, CTL, CTLEV, CTLCB, ADV, PRE, PP, TSET, TRESET, TSETEV, NOPS };
enum Kind { K_SEQ, K_PAR, K_IFELSE, K_IFTHEN, K_SWITCH, K_LOOP, K_LOOPIF, K_REPEAT, K_WRAPPER, K_COMPOSITE,
            K_SUCC, K_FAIL, K_FUNC, K_DUMMY, K_SLEEP, NKIND };
const char *kKindName[] = {"Sequence", "Parallel", "IfElse", "IfThen", "Switch", "Loop", "LoopIf", "Repeat", "Wrapper", "Composite",
                           "Succ", "Fail", "Function", "Dummy", "Sleep"};
enum What { W_START, W_PAUSE, W_RESUME, W_STOP, W_RESET, NWHAT };
const char *kWhatName[] = {"start", "pause", "resume", "stop", "reset"};
enum EvClass { EC_LEAF_FIN, EC_NODE_FIN, EC_LEAF_START, EC_ROOT_BLOCK, EC_LEAF_BLOCK, EC_ROOT_FIN_CB, NEVCLASS };   // EC_ROOT_FIN_CB: applied synchronously inside the root's finish callback

const int kMaxNodes = 20, kMaxDepth = 4, kScriptTicks = 40, kMaxDrain = 150, kQuietTicks = 9;
const int64_t kLongTimeout = 100000, kSleepBase = 600, kBigAdvance = 10000000;

inline bool isLeaf(int k) { return k >= K_SUCC; }
inline int minKids(int k) { switch (k) { case K_SEQ: case K_PAR: return 0; case K_IFELSE: case K_IFTHEN: case K_SWITCH: case K_LOOPIF: return 2; default: return isLeaf(k) ? 0 : 1; } }
inline int maxKids(int k) { switch (k) { case K_SEQ: case K_PAR: return 4; case K_IFELSE: return 3; case K_IFTHEN: return 6; case K_SWITCH: return 5; case K_LOOPIF: return 2; default: return isLeaf(k) ? 0 : 1; } }

struct TNode {
  int kind = K_SUCC, mode = 0, parent = -1, depth = 1, tmo = 0;
  int64_t a = 0, b = 0;
  std::vector<int> ch;
  // leaf script
  int mask() const { return (int)(a & 0xff); }
  int dtype() const { int t = (int)(b % 8); return t == 7 ? 2 : (t == 4 || t == 5) ? 1 : 0; }   // 0 finish, 1 block then finish, 2 never
  int delay() const { return (int)((b / 8) % 6); }
  int delay2() const { return (int)((b / 48) % 4); }
  int times() const { return 1 + (int)(a % 4); }   // Repeat
  // round 8: bit 17 of `a`: a Dummy leaf calls finish(bit 18) from inside its onStop() (an aborted asynchronous operation reporting back
  // synchronously); a composite (not the root) calls stop() on the root (bit 18 = 0) or on its parent (1) from its final callback, but only
  // when that target's own stop() has already begun (re-entrant stop while the tree is being stopped: must be a no-op)
  bool hookFlag() const { return (a >> 17) & 1; }
  bool hookArg() const { return (a >> 18) & 1; }
};
struct Tree {
  std::vector<TNode> n;
  int depth = 1; bool hasPar = false, hasSerial = false, hasLoop = false, hasTimeout = false;
  bool isDesc(int x, int anc) const { while (x >= 0) { if (x == anc) return true; x = n[x].parent; } return false; }
  int childIndex(int p, int c) const { for (size_t i = 0; i < n[p].ch.size(); ++i) if (n[p].ch[i] == c) return (int)i; return -1; }
};

// Switch: what the selector leaf says in its run number `run` (0-based): >= 0 case index, -1 an unknown case name, -2 no message
int switchSel(const Tree &T, int sw, int run) {
  const TNode &d = T.n[sw]; const TNode &s = T.n[d.ch[0]];
  int ncase = (int)d.ch.size() - 1 - ((d.mode & 1) && d.ch.size() >= 3 ? 1 : 0);
  if (s.kind != K_FUNC && s.kind != K_DUMMY) return -1;   // Succ / Fail / Sleep finish with their own fixed message
  int v = (int)(((s.a >> 8) + (int64_t)run * ((s.a >> 16) & 1)) % (ncase + 2));
  return v < ncase ? v : (v == ncase ? -1 : -2);
}
bool switchHasDefault(const TNode &d) { return (d.mode & 1) && d.ch.size() >= 3; }
std::string selMessage(int sel) { return sel >= 0 ? "case:" + std::to_string(sel) : (sel == -1 ? "case:none" : ""); }

struct Ctl { int tick, what, phase; };
struct CtlEv { int cls, n, what, delay; };
struct CtlCb { int n, what; };
struct TSet { int tick, node, ms, phase; };     // setTimeout(ms) on any node at a pass of S; ms < 0: resetTimeout()
struct TSetEv { int cls, n, node, ms; };        // the same in the pass in which the n-th event of a class happened
struct Script {
  std::vector<Ctl> ctl; std::vector<CtlEv> ev; std::vector<CtlCb> cb; std::vector<std::pair<int, int64_t>> adv;
  std::vector<Ctl> pre; std::vector<std::array<int, 3>> pp;
  std::vector<TSet> tset; std::vector<TSetEv> tsetev;
  int autores = 0; bool pre_stop = false; int destroyAt = 0;   // destroyAt: delete the whole tree after that pass of S (0 = never)
};

Tree parseTree(const Scenario &s, bool noSleep, bool noTimeout) {
  Tree T; int pendingFill = 0;
  for (auto &op : s.ops) {
    if (op.code != NODE) continue;
    int k = (int)T.n.size();
    TNode nd; nd.kind = (int)op.in(1, 0, NKIND - 1); nd.mode = (int)op.in(2, 0, 11); nd.a = op.in(3, 0, (1 << 20) - 1); nd.b = op.in(4, 0, 191);
    int t = (int)op.in(5, 0, 63); nd.tmo = t == 0 ? 0 : (t <= 40 ? t : (int)kLongTimeout);
    if (noTimeout) nd.tmo = 0;
    int parent = -1;
    if (k > 0) {
      int want = (int)op.in(0, 0, k - 1);
      for (int i = 0; i < k && parent < 0; ++i) {
        int j = (want + i) % k; const TNode &p = T.n[j];
        if (!isLeaf(p.kind) && p.depth < kMaxDepth && (int)p.ch.size() < maxKids(p.kind)) parent = j;
      }
      if (parent < 0) continue;
      nd.parent = parent; nd.depth = T.n[parent].depth + 1;
      if (nd.depth >= kMaxDepth && !isLeaf(nd.kind)) nd.kind = K_SUCC + nd.kind % 5;
      if (T.n[parent].kind == K_SWITCH && T.n[parent].ch.empty() && !isLeaf(nd.kind)) nd.kind = (nd.kind & 1) ? K_DUMMY : K_FUNC;
    }
    if (noSleep && nd.kind == K_SLEEP) nd.kind = K_DUMMY;
    int fillAfter = pendingFill + minKids(nd.kind);
    if (parent >= 0 && (int)T.n[parent].ch.size() < minKids(T.n[parent].kind)) fillAfter--;
    if (k + 1 + fillAfter > kMaxNodes) continue;
    pendingFill = fillAfter;
    if (parent >= 0) T.n[parent].ch.push_back(k);
    T.n.push_back(nd);
  }
  if (T.n.empty()) { TNode nd; nd.kind = K_SUCC; T.n.push_back(nd); }
  // fill composites that lack documented-mandatory children with synthetic leaves (isReady() must hold)
  for (size_t p = 0; p < T.n.size(); ++p) {
    if (isLeaf(T.n[p].kind)) continue;
    for (;;) {
      int have = (int)T.n[p].ch.size(), need = minKids(T.n[p].kind);
      if (T.n[p].kind == K_IFTHEN && (have & 1)) need = have + 1;
      if (have >= need) break;
      TNode nd; nd.parent = (int)p; nd.depth = T.n[p].depth + 1;
      int64_t x = T.n[p].b / 3 + have * 7 + T.n[p].a;
      nd.kind = K_SUCC + (int)(x % 4); nd.a = (T.n[p].a >> have) ^ x; nd.b = (x * 5) % 48;   // Succ/Fail/Function/Dummy(finishing)
      T.n[p].ch.push_back((int)T.n.size()); T.n.push_back(nd);
    }
  }
  for (auto &nd : T.n) {
    T.depth = std::max(T.depth, nd.depth);
    if (nd.kind == K_PAR) T.hasPar = true; else if (!isLeaf(nd.kind)) T.hasSerial = true;
    if (nd.kind == K_LOOP || nd.kind == K_LOOPIF || nd.kind == K_REPEAT) T.hasLoop = true;
    if (nd.tmo) T.hasTimeout = true;
  }
  return T;
}

// the value itself when it is inside [lo,hi] (friendly to hand-written replays), otherwise reduced into the range
int argIn(const Op &op, size_t i, int64_t lo, int64_t hi) { int64_t v = op.arg(i, lo); return (int)((v >= lo && v <= hi) ? v : op.in(i, lo, hi)); }
Script parseScript(const Scenario &s) {
  Script sc;
  for (auto &op : s.ops) {
    switch (op.code) {
      case CFG: sc.autores = (int)op.in(0, 0, 4); sc.pre_stop = op.in(1, 0, 1) != 0; sc.destroyAt = (int)op.in(2, 0, 30); break;
      case CTL: if (sc.ctl.size() < 24) sc.ctl.push_back({(int)op.in(0, 0, kScriptTicks - 1), (int)op.in(1, 0, NWHAT - 1), (int)op.in(2, 0, 1)}); break;
      case CTLEV: if (sc.ev.size() < 12) sc.ev.push_back({(int)op.in(0, 0, NEVCLASS - 1), argIn(op, 1, 1, 12), (int)op.in(2, 0, NWHAT - 1), (int)op.in(3, 0, 3)}); break;
      case CTLCB: if (sc.cb.size() < 8) sc.cb.push_back({argIn(op, 0, 1, 12), (int)op.in(1, 0, NWHAT - 1)}); break;
      case ADV: if (sc.adv.size() < 8) sc.adv.push_back({(int)op.in(0, 0, kScriptTicks - 1), op.in(1, 0, 2000)}); break;
      case PRE: if (sc.pre.size() < 12) sc.pre.push_back({(int)op.in(0, 0, 15), (int)op.in(1, 0, NWHAT - 1), (int)op.in(2, 0, 1)}); break;
      case TSET: if (sc.tset.size() < 8) { int64_t m = op.in(2, 0, 63); sc.tset.push_back({(int)op.in(0, 0, kScriptTicks - 1), (int)op.in(1, 0, kMaxNodes + 7), m == 0 ? 1 : (m <= 40 ? (int)m : (int)kLongTimeout), (int)op.in(3, 0, 1)}); } break;
      case TRESET: if (sc.tset.size() < 8) sc.tset.push_back({(int)op.in(0, 0, kScriptTicks - 1), (int)op.in(1, 0, kMaxNodes + 7), -1, (int)op.in(2, 0, 1)}); break;
      case TSETEV: if (sc.tsetev.size() < 6) { int64_t m = op.in(3, 0, 63); sc.tsetev.push_back({(int)op.in(0, 0, EC_LEAF_BLOCK), argIn(op, 1, 1, 12), (int)op.in(2, 0, kMaxNodes + 7), m == 0 ? 1 : (m <= 40 ? (int)m : (int)kLongTimeout)}); } break;
      case PP: if (sc.pp.size() < 6) sc.pp.push_back({(int)op.in(0, 0, kScriptTicks - 1), (int)op.in(1, 0, 6), (int)op.in(2, 0, 1)}); break;
      default: break;
    }
  }
  return sc;
}

std::string nodeName(const Tree &T, int n) {
  const TNode &d = T.n[n];
  std::string s = "node " + std::to_string(n) + " (" + kKindName[d.kind];
  if (!isLeaf(d.kind)) s += "/m" + std::to_string(d.mode);
  if (d.parent >= 0) s += ", child " + std::to_string(T.childIndex(d.parent, n)) + " of node " + std::to_string(d.parent) + " " + kKindName[T.n[d.parent].kind];
  else s += ", root";
  return s + ")";
}

// ------------------------------------------------------------------------------------------ functional reference
// Recursive evaluator of the documented pseudo-code (headers; where a pinned unit test disagrees with the header, the
// test wins: Sequence without a mode trigger returns the LAST child's result; Parallel always succeeds; IfElse with
// the needed branch missing succeeds; Repeat exhaustion succeeds; IfThen without a true condition and Switch without a
// matching case / with a failing selector fail; LoopIf returns its configured finish result).
// Written from the headers and *_test.cpp only.  Result: 1 success, 0 failure, -1 never finishes.
int leafResultOf(const Tree &T, int n, int run) {
  const TNode &d = T.n[n];
  switch (d.kind) {
    case K_SUCC: case K_SLEEP: return 1;
    case K_FAIL: return 0;
    case K_FUNC: return (d.mask() >> (run % 8)) & 1;
    default: return d.dtype() == 2 ? -1 : (d.mask() >> (run % 8)) & 1;
  }
}
struct MNode { int type; int tn; std::vector<int> kids; };   // type 0 leaf, 1 series, 2 parallel; tn = tree node
struct Ref {
  const Tree &T; std::vector<int> runs; std::vector<MNode> m; int budget = 1500; int loopDepth = 0;
  bool truncated = false, ambiguous = false, ambInLoop = false;
  explicit Ref(const Tree &t) : T(t), runs(t.n.size(), 0) {}
  int mk(int type, int tn) { m.push_back(MNode{type, tn, {}}); return (int)m.size() - 1; }
  int leafResult(int n, int run) const { return leafResultOf(T, n, run); }
  int eval(int n, int &out) {
    const TNode &d = T.n[n];
    if (isLeaf(d.kind)) { out = mk(0, n); if (--budget < 0) { truncated = true; return -1; } return leafResult(n, runs[n]++); }
    int self = mk(d.kind == K_PAR ? 2 : 1, n); out = self;
    auto sub = [&](int c) { int o; int r = eval(c, o); m[self].kids.push_back(o); return r; };
    switch (d.kind) {
      case K_SEQ: { int last = 1;
        for (int c : d.ch) { int r = sub(c); if (r < 0) return -1; if ((d.mode % 3 == 2 && r) || (d.mode % 3 == 1 && !r)) return r; last = r; }
        return last; }
      case K_PAR: { bool trig = false, never = false;
        for (int c : d.ch) { int r = sub(c); if (r < 0) never = true; else if ((d.mode % 3 == 2 && r) || (d.mode % 3 == 1 && !r)) trig = true; }
        if (trig) { if (d.ch.size() > 1) { ambiguous = true; if (loopDepth > 0) ambInLoop = true; } return 1; }
        return never ? -1 : 1; }
      case K_IFELSE: { int r = sub(d.ch[0]); if (r < 0) return -1;
        int thenc = -1, elsec = -1;
        if (d.ch.size() == 3) { thenc = d.ch[1]; elsec = d.ch[2]; } else if (d.mode & 1) elsec = d.ch[1]; else thenc = d.ch[1];
        int br = r ? thenc : elsec; if (br < 0) return 1; return sub(br); }
      case K_IFTHEN:
        for (size_t i = 0; i + 1 < d.ch.size(); i += 2) { int r = sub(d.ch[i]); if (r < 0) return -1; if (r) return sub(d.ch[i + 1]); }
        return 0;
      case K_SWITCH: { int sel = switchSel(T, n, runs[d.ch[0]]); int r = sub(d.ch[0]); if (r < 0) return -1; if (!r) return 0;
        int ncase = (int)d.ch.size() - 1 - (switchHasDefault(d) ? 1 : 0);
        if (sel >= 0 && sel < ncase) return sub(d.ch[1 + sel]);
        if (switchHasDefault(d)) return sub(d.ch.back());
        return 0; }
      case K_LOOP: { ++loopDepth; int res = -1;
        for (int it = 0; it < 400; ++it) { int r = sub(d.ch[0]); if (r < 0) { --loopDepth; return -1; }
          if ((d.mode % 3 == 2 && r) || (d.mode % 3 == 1 && !r)) { res = r; break; } if (it == 399) truncated = true; }
        --loopDepth; return res; }
      case K_LOOPIF: { ++loopDepth; int res = -1;
        for (int it = 0; it < 400; ++it) { int r = sub(d.ch[0]); if (r < 0) break; if (!r) { res = (d.mode & 1) ? 0 : 1; break; }
          int r2 = sub(d.ch[1]); if (r2 < 0) break; if (it == 399) truncated = true; }
        --loopDepth; return res; }
      case K_REPEAT: { ++loopDepth; int res = 1;
        for (int it = 0; it < d.times(); ++it) { int r = sub(d.ch[0]); if (r < 0) { res = -1; break; }
          if ((d.mode % 3 == 2 && r) || (d.mode % 3 == 1 && !r)) { res = r; break; } }
        --loopDepth; return res; }
      case K_WRAPPER: { int r = sub(d.ch[0]); if (r < 0) return -1;
        switch (d.mode % 4) { case 0: return r; case 1: return !r; case 2: return 1; default: return 0; } }
      default: return sub(d.ch[0]);   // Composite
    }
  }
};

// Incremental matcher: is the real sequence of leaf starts a linear extension (prefix) of the expected series-parallel order?
struct Matcher {
  const Ref &R; std::vector<int> pos; std::vector<char> done;
  explicit Matcher(const Ref &r) : R(r), pos(r.m.size(), 0), done(r.m.size(), 0) {}
  bool complete(int x) const {
    const MNode &n = R.m[x];
    if (n.type == 0) return done[x];
    if (n.type == 1) { for (size_t i = pos[x]; i < n.kids.size(); ++i) if (!complete(n.kids[i])) return false; return true; }
    for (int k : n.kids) if (!complete(k)) return false;
    return true;
  }
  bool accept(int x, int leaf) {
    const MNode &n = R.m[x];
    if (n.type == 0) { if (!done[x] && n.tn == leaf) { done[x] = 1; return true; } return false; }
    if (n.type == 1) {
      while (pos[x] < (int)n.kids.size()) { int k = n.kids[pos[x]]; if (accept(k, leaf)) return true; if (!complete(k)) return false; ++pos[x]; }
      return false;
    }
    for (int k : n.kids) if (R.T.isDesc(leaf, R.m[k].tn)) return accept(k, leaf);
    return false;
  }
};

// ------------------------------------------------------------------------------------------------------ real side
enum { ST_IDLE, ST_RUN, ST_PAUSE, ST_FIN, ST_STOP };
const char *kStName[] = {"idle", "running", "paused", "finished", "stopped"};
enum { EV_S, EV_FT, EV_FF, EV_X, EV_P, EV_R, EV_Z, EV_B, EV_T, EV_L, EV_CBFT, EV_CBFF, EV_CBB, EV_CTL, EV_TSET = EV_CTL + NWHAT, EV_TRESET };
const char *kEvName[] = {"start", "finish(succ)", "finish(fail)", "stop", "pause", "resume", "reset", "block", "timeout", "final-hook",
                         "root-finish-callback(succ)", "root-finish-callback(fail)", "root-block-callback", "ctl-start", "ctl-pause", "ctl-resume", "ctl-stop", "ctl-reset", "setTimeout", "resetTimeout"};
enum { PD_NONE, PD_START, PD_WAIT, PD_FINISH };
struct Ent { int tick, node, kind; };
inline bool operator==(const Ent &x, const Ent &y) { return x.tick == y.tick && x.node == y.node && x.kind == y.kind; }

struct Run;
void runEv(Run *r, int node, int kind);

template <class Base> struct Probe : Base {
  Run *run_; int idx_;
  template <class... A> Probe(Run *r, int idx, A &&...a) : Base(std::forward<A>(a)...), run_(r), idx_(idx) {}
  using Reason = Action::Reason; using Trace = Action::Trace;
  void onStart() override { runEv(run_, idx_, EV_S); Base::onStart(); }
  void onStop() override { runEv(run_, idx_, EV_X); Base::onStop(); }
  void onPause() override { runEv(run_, idx_, EV_P); Base::onPause(); }
  void onResume() override { runEv(run_, idx_, EV_R); Base::onResume(); }
  void onReset() override { runEv(run_, idx_, EV_Z); Base::onReset(); }
  void onBlock(const Reason &w, const Trace &t) override { runEv(run_, idx_, EV_B); Base::onBlock(w, t); }
  void onFinished(bool s, const Reason &w, const Trace &t) override { runEv(run_, idx_, s ? EV_FT : EV_FF); Base::onFinished(s, w, t); }
  void onTimeout() override { runEv(run_, idx_, EV_T); Base::onTimeout(); }
};

struct NodeRt {
  Action *act = nullptr;
  int st = ST_IDLE, res = -1;          // what the callbacks said: state, result (-1 unsure, 0 fail, 1 success)
  bool ended = false; int finals = 0;  // current run ended by finish/stop; final-hook invocations in it
  int finTick = -1;                    // pass in which it finished (statistics: control call between finish and handling)
  // documented-flow monitor (composites)
  int pend = PD_NONE, pendChild = -1, pendRes = 0;
  std::vector<char> toStart; int toStartLeft = 0;       // Parallel: children not yet started in this run
  std::vector<signed char> fin; int nfin = 0; bool trig = false;   // Parallel
  int idx = 0, remain = 0;
  bool tmoPending = false, byTimeout = false;
  // model of the action's timeout timer, as action.cpp defines it: armed by start()/resume() and by setTimeout() on a RUNNING
  // action, disarmed by pause()/finish/stop()/reset(), by resetTimeout() and by setTimeout() on an action that is not running;
  // block() leaves it alone; every arming counts the full interval again (no remainder is kept across a pause)
  bool hasTmo = false, armed = false, pausedByPause = false, setByScript = false; int64_t tmoDur = 0; uint64_t deadline = 0;
  // leaves
  int runs = 0, phase = 0, cd = 0, emitRes = -1;
};

struct RootRun { std::vector<int> starts; int result = -1; bool tmo = false, stopped = false, reset = false; };

struct Run {
  const Tree &T; const Script &S; tbox::event::Loop *loop; uint64_t &now;
  std::vector<NodeRt> rt; Action *root = nullptr;
  std::vector<Ent> trace; std::string err;
  int tick = 0;
  bool inRootStart = false, scriptActive = false;
  const std::vector<Ctl> *prog = nullptr; int progBase = 0;
  std::vector<std::pair<int, int>> due;   // (ticks left, what)
  std::vector<std::pair<int, int>> dueT;  // (node, ms) setTimeout calls to make in this pass's driver step
  int cnt[NEVCLASS] = {0, 0, 0, 0, 0, 0};
  int pendingFinishCb = 0, pendingBlockCb = 0;
  std::vector<RootRun> runs;
  std::vector<std::array<int, 2>> ppOpen;   // (resume tick, -) pause pairs whose pause took effect
  // statistics
  bool frozen = false, destroyed = false;   // after the final stop: late control calls are ignored
  bool twoBlocksInFlight = false, finishInStop = false, stopInFinal = false, nestedStop = false, allowStopInFinal = true;
  bool between = false, pauseBetween = false, anyTimeout = false, blockSeen = false, pausedFinishStored = false,
       resetUnderway = false, sleepAnomaly = false, nonquiescent = false, staleProbe = false;
  int nCtlApplied = 0;

  Run(const Tree &t, const Script &s, tbox::event::Loop *l, uint64_t &clock) : T(t), S(s), loop(l), now(clock), rt(t.n.size()) {}
  ~Run() { delete root; }

  void fail(const std::string &m) { if (err.empty()) err = "pass " + std::to_string(tick) + ": " + m; }
  std::string nn(int n) const { return nodeName(T, n); }

  // ---- building the real tree
  Action *build(int n) {
    using namespace tbox::flow;
    const TNode &d = T.n[n]; auto &L = *loop; Action *a = nullptr; bool ok = true;
    switch (d.kind) {
      case K_SEQ: { auto p = new Probe<SequenceAction>(this, n, L, SequenceAction::Mode(d.mode % 3)); a = p; for (int c : d.ch) ok &= p->addChild(build(c)) >= 0; break; }
      case K_PAR: { auto p = new Probe<ParallelAction>(this, n, L, ParallelAction::Mode(d.mode % 3)); a = p; for (int c : d.ch) ok &= p->addChild(build(c)) >= 0; break; }
      case K_IFELSE: { auto p = new Probe<IfElseAction>(this, n, L); a = p;
        ok &= p->setChildAs(build(d.ch[0]), "if");
        if (d.ch.size() == 3) { ok &= p->setChildAs(build(d.ch[1]), "then"); ok &= p->setChildAs(build(d.ch[2]), "else"); }
        else ok &= p->setChildAs(build(d.ch[1]), (d.mode & 1) ? "else" : "then");
        break; }
      case K_IFTHEN: { auto p = new Probe<IfThenAction>(this, n, L); a = p;
        for (size_t i = 0; i < d.ch.size(); ++i) ok &= p->addChildAs(build(d.ch[i]), (i & 1) ? "then" : "if") >= 0;
        break; }
      case K_SWITCH: { auto p = new Probe<SwitchAction>(this, n, L); a = p;
        ok &= p->setChildAs(build(d.ch[0]), "switch");
        int ncase = (int)d.ch.size() - 1 - (switchHasDefault(d) ? 1 : 0);
        for (int i = 0; i < ncase; ++i) ok &= p->setChildAs(build(d.ch[1 + i]), "case:" + std::to_string(i));
        if (switchHasDefault(d)) ok &= p->setChildAs(build(d.ch.back()), "default");
        break; }
      case K_LOOP: { auto p = new Probe<LoopAction>(this, n, L, LoopAction::Mode(d.mode % 3)); a = p; ok &= p->setChild(build(d.ch[0])); break; }
      case K_LOOPIF: { auto p = new Probe<LoopIfAction>(this, n, L); a = p; ok &= p->setChildAs(build(d.ch[0]), "if"); ok &= p->setChildAs(build(d.ch[1]), "exec");
        if (d.mode & 1) p->setFinishResult(false); break; }
      case K_REPEAT: { auto p = new Probe<RepeatAction>(this, n, L, (size_t)d.times(), RepeatAction::Mode(d.mode % 3)); a = p; ok &= p->setChild(build(d.ch[0])); break; }
      case K_WRAPPER: { auto p = new Probe<WrapperAction>(this, n, L, WrapperAction::Mode(d.mode % 4)); a = p; ok &= p->setChild(build(d.ch[0])); break; }
      case K_COMPOSITE: { auto p = new Probe<CompositeAction>(this, n, L, "Composite"); a = p; ok &= p->setChild(build(d.ch[0])); break; }
      case K_SUCC: a = new Probe<SuccAction>(this, n, L); break;
      case K_FAIL: a = new Probe<FailAction>(this, n, L); break;
      case K_FUNC: a = new Probe<FunctionAction>(this, n, L, FunctionAction::FuncWithReason([this, n](Action::Reason &r) { return funcLeaf(n, r); })); break;
      case K_DUMMY: { auto p = new Probe<DummyAction>(this, n, L); a = p;
        if (d.hookFlag()) { bool ok = d.hookArg(); p->setStopCallback([this, p, ok] { finishInStop = true; p->emitFinish(ok, Action::Reason("aborted")); }); }
        break; }
      default: a = new Probe<SleepAction>(this, n, L, std::chrono::milliseconds(kSleepBase + d.a % 20)); break;
    }
    if (!ok) fail("harness: adding a child to " + nn(n) + " was refused");
    rt[n].act = a;
    if (!isLeaf(d.kind)) {
      int target = (allowStopInFinal && n != 0 && d.hookFlag()) ? (d.hookArg() ? d.parent : 0) : -1;
      static_cast<AssembleAction *>(a)->setFinalCallback([this, n, a, target] {
        runEv(this, n, EV_L);
        if (target >= 0 && rt[target].act && rt[target].st == ST_STOP) { nestedStop = true; rt[target].act->stop(); }   // only while/after the target's own stop(): a no-op by definition
      });
    }
    if (d.tmo) { a->setTimeout(std::chrono::milliseconds(d.tmo)); rt[n].hasTmo = true; rt[n].tmoDur = d.tmo; }
    return a;
  }
  void buildTree() {
    root = build(0);
    root->setFinishCallback([this](bool s, const Action::Reason &, const Action::Trace &) { rootFinishCb(s); });
    root->setBlockCallback([this](const Action::Reason &, const Action::Trace &) { rootBlockCb(); });
    if (!root->isReady()) fail("harness: generated tree is not isReady()");
  }
  std::string leafMessage(int n, int run) const {
    int p = T.n[n].parent;
    if (p >= 0 && T.n[p].kind == K_SWITCH && T.n[p].ch[0] == n) return selMessage(switchSel(T, p, run));
    return "leaf";
  }
  bool funcLeaf(int n, Action::Reason &r) {
    int run = rt[n].runs - 1;
    r.message = leafMessage(n, run);
    return (T.n[n].mask() >> (run % 8)) & 1;
  }

  // ---- event intake: bookkeeping, documented-flow monitors, invariants that can be decided at the event
  static bool traceOn() { static const bool on = getenv("VERIF_C17_TRACE") != nullptr; return on; }
  void note(int n, int kind) {   // VERIF_C17_TRACE=1: print every event (for reading replays; never changes behaviour)
    trace.push_back(Ent{tick, n, kind});
    if (traceOn()) fprintf(stderr, "[c17] pass %d: %s %s\n", tick, nn(n).c_str(), kEvName[kind]);
  }
  void ev(int n, int kind) {
    note(n, kind);
    if (!err.empty()) return;
    NodeRt &x = rt[n]; const TNode &d = T.n[n]; bool leaf = isLeaf(d.kind);
    switch (kind) {
      case EV_S: {
        if (x.st == ST_RUN || x.st == ST_PAUSE) fail(nn(n) + " was started again while its previous run is under way (" + kStName[x.st] + ")");
        checkFinals(n);
        if (d.parent >= 0) parentExpectStart(d.parent, n);
        else if (!inRootStart) fail("the root was started, but not by the control script");
        x.st = ST_RUN; x.res = -1; x.ended = false; x.finals = 0; x.tmoPending = false; x.finTick = -1;
        x.armed = x.hasTmo; x.deadline = now + (uint64_t)x.tmoDur;
        if (n == 0) { runs.emplace_back(); pendingFinishCb = 0; pendingBlockCb = 0; }
        if (leaf) {
          if (runs.empty()) runs.emplace_back();
          runs.back().starts.push_back(n);
          x.runs++; x.phase = 0; x.cd = d.delay(); x.emitRes = -1;
          bump(EC_LEAF_START);
          if (scriptActive) for (auto &c : S.cb) if (c.n == cnt[EC_LEAF_START]) { int w = c.what; loop->runNext([this, w] { apply(w); }, "c17 ctlcb"); }
        } else initMonitor(n);
        break; }
      case EV_FT: case EV_FF: {
        int r = kind == EV_FT;
        if (x.st == ST_STOP || x.st == ST_FIN) fail(nn(n) + " accepted finish(" + (r ? "succ" : "fail") + ") although it is already " + kStName[x.st] + ": a stopped action must not finish, get a result or notify");
        if (x.st == ST_IDLE) { fail(nn(n) + " accepted finish(" + (r ? "succ" : "fail") + ") although it is idle (never started or reset): stale finish"); staleProbe = true; }
        if (leaf) {
          int exp = x.tmoPending ? 0 : (d.kind == K_DUMMY ? x.emitRes : leafResultOf(T, n, x.runs - 1));
          if (exp != r) fail(nn(n) + " finished with " + (r ? "success" : "failure") + ", its script says " + (exp < 0 ? "it does not finish now" : exp ? "success" : "failure"));
        } else if (x.tmoPending) {
          if (r) fail(nn(n) + " timed out but finished with success");
        } else if (x.toStartLeft > 0) fail(nn(n) + " finished before having started all its children");
        else if (x.pend != PD_FINISH) fail(nn(n) + " finished(" + (r ? "succ" : "fail") + ") although its documented flow " + describePend(n));
        else if (x.pendRes != r) fail(nn(n) + " finished with " + (r ? "success" : "failure") + ", documented result is " + (x.pendRes ? "success" : "failure"));
        x.byTimeout = x.tmoPending;
        x.st = ST_FIN; x.res = r; x.ended = true; x.pend = PD_NONE; x.tmoPending = false; x.finTick = tick; x.armed = false;
        if (d.parent >= 0) { childFinished(d.parent, n, r); bump(leaf ? EC_LEAF_FIN : EC_NODE_FIN); }
        else { pendingFinishCb = 1; if (!runs.empty()) runs.back().result = r; if (leaf) bump(EC_LEAF_FIN); }
        break; }
      case EV_X:
        if (x.st != ST_RUN && x.st != ST_PAUSE) fail("onStop() of " + nn(n) + " ran although it is " + kStName[x.st] + " (a nested stop() on an action that is already stopped must be a no-op)");
        x.st = ST_STOP; x.ended = true; x.pend = PD_NONE; x.tmoPending = false; x.toStartLeft = 0; x.armed = false;
        if (n == 0 && !runs.empty()) runs.back().stopped = true;
        break;
      case EV_P: x.st = ST_PAUSE; x.armed = false; x.pausedByPause = true; break;
      case EV_R: x.st = ST_RUN; x.pausedByPause = false; if (x.hasTmo && !x.armed) { x.armed = true; x.deadline = now + (uint64_t)x.tmoDur; } break;
      case EV_Z:
        checkFinals(n);
        if (x.st == ST_RUN || x.st == ST_PAUSE) { if (n == 0) { resetUnderway = true; if (!runs.empty()) runs.back().reset = true; } }
        x.st = ST_IDLE; x.res = -1; x.ended = false; x.finals = 0; x.pend = PD_NONE; x.tmoPending = false; x.toStartLeft = 0; x.armed = false;
        if (n == 0) { pendingFinishCb = 0; pendingBlockCb = 0; }
        break;
      case EV_B:
        if (x.st == ST_IDLE) { fail(nn(n) + " accepted block() although it is idle (never started or reset): stale block"); staleProbe = true; }
        if (x.st == ST_RUN) x.pausedByPause = false;
        x.st = ST_PAUSE; blockSeen = true;
        if (n == 0) { if (pendingBlockCb > 0) twoBlocksInFlight = true; pendingBlockCb++; bump(EC_ROOT_BLOCK); } else if (leaf) bump(EC_LEAF_BLOCK);
        break;
      case EV_T:
        anyTimeout = true; if (!runs.empty()) runs.back().tmo = true;
        if (!x.armed) fail("the timeout of " + nn(n) + " fired although its timer is not armed: the action is " + kStName[x.st] + (x.pausedByPause ? " (by pause(), which switches the timer off until resume())" : "") + (x.hasTmo ? "" : " and has no timeout configured"));
        else if (now < x.deadline) fail("the timeout of " + nn(n) + " fired " + std::to_string(x.deadline - now) + " ms early");
        if (x.setByScript) timeoutAfterSet = true;
        x.armed = false;
        if (x.st == ST_RUN || x.st == ST_PAUSE) x.tmoPending = true;
        break;
      case EV_L:
        x.finals++;
        if (x.st != ST_FIN && x.st != ST_STOP) fail("final hook of " + nn(n) + " ran while it is " + kStName[x.st]);
        else if (x.finals > 1) fail("final hook of " + nn(n) + " ran " + std::to_string(x.finals) + " times in one run");
        break;
    }
  }
  void bump(int cls) {
    cnt[cls]++;
    if (!scriptActive) return;
    for (auto &e : S.ev) if (e.cls == cls && e.n == cnt[cls]) due.push_back({e.delay, e.what});
    for (auto &e : S.tsetev) if (e.cls == cls && e.n == cnt[cls]) dueT.push_back({e.node, e.ms});
  }
  void checkFinals(int n) {
    NodeRt &x = rt[n];
    if (!isLeaf(T.n[n].kind) && x.ended && x.finals != 1) fail("final hook of " + nn(n) + " ran " + std::to_string(x.finals) + " times in the run that just ended (" + kStName[x.st] + ")");
  }
  std::string describePend(int n) const {
    const NodeRt &x = rt[n];
    switch (x.pend) {
      case PD_START: return "says: start child " + std::to_string(T.childIndex(n, x.pendChild)) + " next";
      case PD_WAIT: return "says: wait for child " + std::to_string(T.childIndex(n, x.pendChild)) + " (" + kStName[rt[x.pendChild].st] + ")";
      case PD_FINISH: return std::string("says: finish with ") + (x.pendRes ? "success" : "failure");
      default: return T.n[n].kind == K_PAR ? "says: wait for the children" : "has nothing pending";
    }
  }
  void initMonitor(int n) {
    NodeRt &x = rt[n]; const TNode &d = T.n[n];
    x.idx = 0; x.remain = 0; x.pend = PD_NONE; x.pendChild = -1; x.toStartLeft = 0; x.nfin = 0; x.trig = false;
    if (d.kind == K_PAR) {
      x.toStart.assign(d.ch.size(), 1); x.toStartLeft = (int)d.ch.size(); x.fin.assign(d.ch.size(), -1);
      if (d.ch.empty()) { x.pend = PD_FINISH; x.pendRes = 1; }
      return;
    }
    if (d.kind == K_SEQ && d.ch.empty()) { x.pend = PD_FINISH; x.pendRes = 1; return; }
    if (d.kind == K_REPEAT) x.remain = d.times() - 1;
    x.pend = PD_START; x.pendChild = d.ch[0];
  }
  void parentExpectStart(int p, int c) {
    NodeRt &P = rt[p]; const TNode &d = T.n[p];
    if (P.st != ST_RUN && P.st != ST_PAUSE) { fail(nn(c) + " was started while its parent is " + kStName[P.st]); return; }
    if (d.kind == K_PAR) {
      int i = T.childIndex(p, c);
      if (P.toStartLeft > 0 && P.toStart[i]) { P.toStart[i] = 0; P.toStartLeft--; }
      else fail(nn(c) + " was started a second time in one run of its Parallel parent");
      return;
    }
    if (P.pend == PD_START && P.pendChild == c) { P.pend = PD_WAIT; return; }
    fail(nn(c) + " was started, but the documented flow of its parent " + describePend(p));
  }
  void setStart(NodeRt &P, int c) { P.pend = PD_START; P.pendChild = c; }
  void setFinish(NodeRt &P, int r) { P.pend = PD_FINISH; P.pendRes = r; }
  void childFinished(int p, int c, int r) {
    NodeRt &P = rt[p]; const TNode &d = T.n[p];
    if (P.st != ST_RUN && P.st != ST_PAUSE) return;
    if (P.st == ST_PAUSE) pausedFinishStored = true;
    int m3 = d.mode % 3;
    if (d.kind == K_PAR) {
      int i = T.childIndex(p, c);
      if (P.fin[i] < 0) { P.fin[i] = (signed char)r; P.nfin++; }
      if ((m3 == 2 && r) || (m3 == 1 && !r)) P.trig = true;
      if (P.trig || P.nfin == (int)d.ch.size()) setFinish(P, 1);
      return;
    }
    if (!(P.pend == PD_WAIT && P.pendChild == c)) { fail(nn(c) + " finished, but the documented flow of its parent " + describePend(p)); return; }
    int ci = T.childIndex(p, c);
    switch (d.kind) {
      case K_SEQ:   // idx mirrors the documented meaning of index(): the child that ended the sequence, or the number of children
        if ((m3 == 2 && r) || (m3 == 1 && !r)) { P.idx = ci; setFinish(P, r); }
        else if (ci + 1 < (int)d.ch.size()) { P.idx = ci + 1; setStart(P, d.ch[ci + 1]); }
        else { P.idx = ci + 1; setFinish(P, r); }
        break;
      case K_IFELSE:
        if (ci == 0) {
          int thenc = -1, elsec = -1;
          if (d.ch.size() == 3) { thenc = d.ch[1]; elsec = d.ch[2]; } else if (d.mode & 1) elsec = d.ch[1]; else thenc = d.ch[1];
          int br = r ? thenc : elsec;
          if (br >= 0) setStart(P, br); else setFinish(P, 1);
        } else setFinish(P, r);
        break;
      case K_IFTHEN:
        if (ci & 1) setFinish(P, r);
        else if (r) setStart(P, d.ch[ci + 1]);
        else if (ci + 2 < (int)d.ch.size()) setStart(P, d.ch[ci + 2]);
        else setFinish(P, 0);
        break;
      case K_SWITCH:
        if (ci == 0) {
          if (!r) { setFinish(P, 0); break; }
          int sel = switchSel(T, p, rt[c].runs - 1);
          int ncase = (int)d.ch.size() - 1 - (switchHasDefault(d) ? 1 : 0);
          if (sel >= 0 && sel < ncase) setStart(P, d.ch[1 + sel]);
          else if (switchHasDefault(d)) setStart(P, d.ch.back());
          else setFinish(P, 0);
        } else setFinish(P, r);
        break;
      case K_LOOP:
        if ((m3 == 2 && r) || (m3 == 1 && !r)) setFinish(P, r); else setStart(P, c);
        break;
      case K_LOOPIF:
        if (ci == 0) { if (r) setStart(P, d.ch[1]); else setFinish(P, (d.mode & 1) ? 0 : 1); }
        else setStart(P, d.ch[0]);
        break;
      case K_REPEAT:
        if ((m3 == 2 && r) || (m3 == 1 && !r)) setFinish(P, r);
        else if (P.remain > 0) { P.remain--; setStart(P, c); }
        else setFinish(P, 1);
        break;
      case K_WRAPPER: { int m = d.mode % 4; setFinish(P, m == 0 ? r : m == 1 ? !r : m == 2 ? 1 : 0); break; }
      default: setFinish(P, r); break;
    }
  }

  // ---- root callbacks
  void rootFinishCb(bool s) {
    note(0, s ? EV_CBFT : EV_CBFF);
    if (!err.empty()) return;
    NodeRt &r = rt[0];
    if (r.st != ST_FIN) fail(std::string("the root's finish callback was delivered while the root is ") + kStName[r.st] + " (stale notification)");
    else if (!pendingFinishCb) fail("the root's finish callback was delivered a second time for one run");
    else if ((int)s != r.res) fail("the root's finish callback reports a result different from result()");
    pendingFinishCb = 0;
    cnt[EC_ROOT_FIN_CB]++;
    if (scriptActive) for (auto &e : S.ev) if (e.cls == EC_ROOT_FIN_CB && e.n == cnt[EC_ROOT_FIN_CB]) apply(e.what);
  }
  void rootBlockCb() {
    note(0, EV_CBB);
    if (!err.empty()) return;
    NodeRt &r = rt[0];
    if (r.st == ST_STOP || r.st == ST_IDLE) fail(std::string("the root's block callback was delivered although the root is ") + kStName[r.st] + " (stale notification after stop/reset)");
    else if (pendingBlockCb <= 0) fail("the root's block callback was delivered without a block() in this run");
    if (pendingBlockCb > 0) pendingBlockCb--;
    if (S.autores == 1) { if (r.st == ST_PAUSE) apply(W_RESUME); }
    else if (S.autores > 1) due.push_back({S.autores - 2, W_RESUME});
  }

  // ---- control calls on the root
  void apply(int what) {
    if (!err.empty() || !root || frozen) return;
    note(0, EV_CTL + what);
    nCtlApplied++;
    NodeRt &r = rt[0]; int before = r.st;
    if (before == ST_RUN || before == ST_PAUSE)
      for (size_t c = 1; c < rt.size(); ++c) {
        int ps = rt[T.n[c].parent].st;
        if (rt[c].finTick == tick && rt[c].st == ST_FIN && (ps == ST_RUN || ps == ST_PAUSE)) { between = true; if (what == W_PAUSE && before == ST_RUN) pauseBetween = true; }
      }
    switch (what) {
      case W_START: inRootStart = true; root->start(); inRootStart = false; break;
      case W_PAUSE: {
        // pause() reaches every node that is effectively running (pinned by SwitchAction.PauseResume: the running child's pause hook runs)
        std::vector<char> live(rt.size(), 0);
        for (size_t n = 0; n < rt.size(); ++n) live[n] = rt[n].st == ST_RUN && (T.n[n].parent < 0 || live[T.n[n].parent]);
        root->pause();
        if (before == ST_RUN && r.st != ST_PAUSE) fail("pause() on the running root left it " + std::string(kStName[r.st]));
        for (size_t n = 0; n < rt.size() && err.empty(); ++n)
          if (live[n] && rt[n].st != ST_PAUSE) fail("pause() of the root did not reach " + nn((int)n) + ": it was running (as were all its ancestors) and is " + kStName[rt[n].st] + " afterwards");
        break; }
      case W_RESUME: root->resume(); if (before == ST_PAUSE && r.st != ST_RUN && r.st != ST_FIN) fail("resume() on the paused root left it " + std::string(kStName[r.st])); break;
      case W_STOP: root->stop(); if ((before == ST_RUN || before == ST_PAUSE) && r.st != ST_STOP) fail("stop() on the root that was under way left it " + std::string(kStName[r.st])); break;
      case W_RESET:
        root->reset();
        if (r.st != ST_IDLE) fail("reset() left the root " + std::string(kStName[r.st]));
        for (auto &x : rt) { x.runs = 0; x.finTick = -1; }
        break;
    }
  }

  // ---- setTimeout(ms) / resetTimeout() (ms < 0) on any node, at any moment
  void applyTimeout(int node, int ms) {
    if (!err.empty() || !root || frozen) return;
    int n = node % (int)rt.size(); NodeRt &x = rt[n];
    note(n, ms < 0 ? EV_TRESET : EV_TSET);
    const char *stc[] = {"settimeout_while_idle", "settimeout_while_running", "settimeout_while_paused", "settimeout_after_finish", "settimeout_after_stop"};
    tmoClasses.insert(ms < 0 ? "resettimeout_called" : (x.st == ST_PAUSE && !x.pausedByPause ? "settimeout_while_blocked" : stc[x.st]));
    if (ms >= 0 && x.st == ST_PAUSE && n != 0) tmoClasses.insert("settimeout_on_paused_descendant");
    if (ms < 0) { x.act->resetTimeout(); x.hasTmo = false; x.armed = false; return; }
    x.act->setTimeout(std::chrono::milliseconds(ms));
    x.hasTmo = true; x.tmoDur = ms; x.armed = x.st == ST_RUN; x.deadline = now + (uint64_t)ms; x.setByScript = true;
  }
  std::set<std::string> tmoClasses; bool timeoutAfterSet = false;

  // ---- one driver step (= one loop pass; the driver task is the last task of every pass)
  void emissions() {
    for (size_t n = 0; n < rt.size() && err.empty(); ++n) {
      const TNode &d = T.n[n]; NodeRt &x = rt[n];
      if (d.kind != K_DUMMY || d.dtype() == 2) continue;
      if (x.act->state() != Action::State::kRunning || x.st != ST_RUN) continue;
      if (x.phase == 1) { x.phase = 2; x.cd = d.delay2(); }
      if (x.cd > 0) { x.cd--; continue; }
      auto *dm = static_cast<tbox::flow::DummyAction *>(x.act);
      if (d.dtype() == 1 && x.phase == 0) { x.phase = 1; dm->emitBlock(Action::Reason(7, "blocked")); }
      else { int run = x.runs - 1; x.emitRes = (d.mask() >> (run % 8)) & 1; dm->emitFinish(x.emitRes != 0, Action::Reason(leafMessage((int)n, run))); }
    }
  }
  void step(int64_t advance) {
    int rel = tick - progBase;
    if (prog) for (auto &c : *prog) if (c.tick == rel && c.phase == 0) apply(c.what);
    if (scriptActive) for (auto &t : S.tset) if (t.tick == rel && t.phase == 0) applyTimeout(t.node, t.ms);
    if (scriptActive) for (auto &p : S.pp) if (p[0] == rel && p[2] == 0) ppPause(rel + p[1]);
    emissions();
    if (prog) for (auto &c : *prog) if (c.tick == rel && c.phase == 1) apply(c.what);
    if (scriptActive) for (auto &t : S.tset) if (t.tick == rel && t.phase == 1) applyTimeout(t.node, t.ms);
    { auto fireT = dueT; dueT.clear(); for (auto &t : fireT) applyTimeout(t.first, t.second); }
    if (scriptActive) for (auto &p : S.pp) if (p[0] == rel && p[2] == 1) ppPause(rel + p[1]);
    { std::vector<std::pair<int, int>> keep, fire;
      for (auto &d : due) { if (d.first <= 0) fire.push_back(d); else keep.push_back({d.first - 1, d.second}); }
      due.swap(keep);
      for (auto &d : fire) apply(d.second); }
    for (size_t i = 0; i < ppOpen.size();) { if (ppOpen[i][0] <= rel) { if (rt[0].st == ST_PAUSE) apply(W_RESUME); ppOpen.erase(ppOpen.begin() + i); } else ++i; }
    int64_t adv = advance;
    if (scriptActive) for (auto &a : S.adv) if (a.first == rel) adv += a.second;
    now += (uint64_t)adv;
    checkPass();
    ++tick;
  }
  void ppPause(int resumeAt) { if (rt[0].st == ST_RUN) { apply(W_PAUSE); if (rt[0].st == ST_PAUSE) ppOpen.push_back({resumeAt, 0}); } }

  static int stOf(Action::State s) {
    switch (s) { case Action::State::kIdle: return ST_IDLE; case Action::State::kRunning: return ST_RUN; case Action::State::kPause: return ST_PAUSE;
                 case Action::State::kFinished: return ST_FIN; default: return ST_STOP; }
  }
  // invariants after every pass
  void checkPass() {
    if (!err.empty()) return;
    std::vector<int> dead(rt.size(), -1), idle(rt.size(), -1);   // nearest finished/stopped resp. idle ancestor
    for (size_t n = 0; n < rt.size(); ++n) {
      const NodeRt &x = rt[n]; const TNode &d = T.n[n];
      int real = stOf(x.act->state());
      if (real != x.st) { fail("state() of " + nn((int)n) + " is " + kStName[real] + ", but its callbacks say " + kStName[x.st]); return; }
      auto rr = x.act->result(); int res = rr == Action::Result::kSuccess ? 1 : rr == Action::Result::kFail ? 0 : -1;
      if (res != x.res) { fail("result() of " + nn((int)n) + " is " + tbox::flow::ToString(rr) + ", inconsistent with its callbacks (" + kStName[x.st] + ")"); return; }
      if (d.parent >= 0) {
        int p = d.parent;
        dead[n] = (rt[p].st == ST_FIN || rt[p].st == ST_STOP) ? p : dead[p];
        idle[n] = rt[p].st == ST_IDLE ? p : idle[p];
        if (dead[n] >= 0 && (real == ST_RUN || real == ST_PAUSE)) { fail(nn(dead[n]) + " is " + kStName[rt[dead[n]].st] + " but its descendant " + nn((int)n) + " is still " + kStName[real]); return; }
        if (idle[n] >= 0 && real != ST_IDLE) { fail(nn(idle[n]) + " is idle (reset) but its descendant " + nn((int)n) + " is " + kStName[real]); return; }
      }
      if (d.kind == K_SEQ && (x.st == ST_IDLE || (x.st == ST_FIN && !x.byTimeout))) {
        int want = x.st == ST_IDLE ? 0 : x.idx, got = static_cast<tbox::flow::SequenceAction *>(x.act)->index();
        if (got != want) { fail("index() of " + nn((int)n) + " is " + std::to_string(got) + " while it is " + kStName[x.st] + ", documented (pinned by sequence_action_test.cpp): " + std::to_string(want)); return; }
      }
      if (!isLeaf(d.kind) && x.ended && x.finals == 0) { fail("final hook of " + nn((int)n) + " did not run although it is " + kStName[x.st]); return; }
    }
  }
  // liveness, decided once nothing happens any more (all timers fired, every scripted leaf emission done)
  void checkQuiescent() {
    if (!err.empty()) return;
    std::vector<char> live(rt.size(), 0);   // running, and every ancestor running
    for (size_t n = 0; n < rt.size(); ++n) {
      const NodeRt &x = rt[n]; const TNode &d = T.n[n];
      live[n] = x.st == ST_RUN && (d.parent < 0 || live[d.parent]);
      if (!live[n]) continue;
      if (d.kind == K_SLEEP) sleepAnomaly = true;   // only possible when the process was stalled for > 0.5 s of real time (sleep remainder is real-time based)
      if (isLeaf(d.kind)) continue;
      if (x.toStartLeft > 0) { fail(nn((int)n) + " is running but never started " + std::to_string(x.toStartLeft) + " of its children"); return; }
      if (x.pend == PD_START || x.pend == PD_FINISH) { fail(nn((int)n) + " is stuck: it is running, nothing is pending in the loop, and its documented flow " + describePend((int)n)); return; }
      if (x.pend == PD_WAIT && rt[x.pendChild].st != ST_RUN && rt[x.pendChild].st != ST_PAUSE) { fail(nn((int)n) + " is stuck: it is running and waits for child " + nn(x.pendChild) + " which is " + kStName[rt[x.pendChild].st]); return; }
    }
    for (size_t n = 0; n < rt.size() && err.empty(); ++n)
      if (rt[n].armed && (rt[n].st == ST_RUN || rt[n].st == ST_PAUSE) && now > rt[n].deadline + 1000)
        fail("the timeout of " + nn((int)n) + " is armed (" + std::to_string(rt[n].tmoDur) + " ms, the action is " + kStName[rt[n].st] + ") and long overdue, but never fired");
    if (rt[0].st == ST_FIN && pendingFinishCb) fail("the root finished but its finish callback was never delivered");
  }
  void checkAllDead() {
    if (!err.empty()) return;
    for (size_t n = 0; n < rt.size(); ++n) if (rt[n].st == ST_RUN || rt[n].st == ST_PAUSE) { fail("after stop() of the root, " + nn((int)n) + " is still " + kStName[rt[n].st]); return; }
    for (size_t n = 0; n < rt.size(); ++n) checkFinals((int)n);
  }

  // ---- oracle 1: functional reference, per run of the root
  std::string refNote; bool refCompared = false, refOrderCompared = false, refSkipped = false;
  void checkReference() {
    if (!err.empty()) return;
    for (size_t k = 0; k < runs.size(); ++k) {
      const RootRun &rr = runs[k];
      if (rr.tmo || sleepAnomaly) { refSkipped = true; continue; }
      Ref ref(T); int out = -1; int E = ref.eval(0, out);
      if (ref.ambInLoop || ref.truncated) { refSkipped = true; continue; }
      std::string where = "run " + std::to_string(k + 1) + " of the root: ";
      refCompared = true;
      if (rr.result >= 0) {
        if (E < 0) { fail(where + "finished with " + (rr.result ? "success" : "failure") + ", but by the documented flow it cannot finish (a needed leaf never finishes)"); return; }
        if (E != rr.result) { fail(where + "finished with " + (rr.result ? "success" : "failure") + ", the reference evaluation of the documented flow gives " + (E ? "success" : "failure")); return; }
      } else if (k + 1 == runs.size() && !nonquiescent && rt[0].st == ST_RUN && E >= 0) {
        fail(where + "still running at quiescence, the reference evaluation says it finishes with " + (E ? "success" : "failure")); return;
      }
      if (ref.ambiguous) continue;
      refOrderCompared = true;
      Matcher mt(ref);
      for (size_t i = 0; i < rr.starts.size(); ++i)
        if (!mt.accept(out, rr.starts[i])) { fail(where + "leaf start #" + std::to_string(i + 1) + " (" + nn(rr.starts[i]) + ") is not the next leaf in the documented order"); return; }
      if (rr.result >= 0 && !mt.complete(out)) { fail(where + "finished after " + std::to_string(rr.starts.size()) + " leaf starts, the documented flow needs more"); return; }
    }
  }

  // ---- driver phases
  bool quiet(size_t &lastSize, int &quietTicks) { if (trace.size() == lastSize) ++quietTicks; else { quietTicks = 0; lastSize = trace.size(); } return quietTicks >= kQuietTicks; }
};
void runEv(Run *r, int node, int kind) { r->ev(node, kind); }

// One execution: [prefix script; (stop;) reset; idle passes;] script S; drain; liveness + reference checks; final stop.
// Returns the index into R.trace at which S began and the pass number of that point.
struct ExecInfo { size_t mark = 0; int base = 0; };
ExecInfo execute(Run &R, bool withPrefix) {
  ExecInfo xi;
  int ph = withPrefix ? 0 : 2, cntInPhase = 0, quietTicks = 0, drainTicks = 0; size_t lastSize = 0, idleMark = 0;
  int preLen = 1; for (auto &c : R.S.pre) preLen = std::max(preLen, c.tick + 1);
  int scriptLen = 1;
  for (auto &c : R.S.ctl) scriptLen = std::max(scriptLen, c.tick + 1);
  for (auto &p : R.S.pp) scriptLen = std::max(scriptLen, p[0] + p[1] + 1);
  for (auto &a : R.S.adv) scriptLen = std::max(scriptLen, a.first + 1);
  for (auto &t : R.S.tset) scriptLen = std::max(scriptLen, t.tick + 1);
  vloop::drive(R.loop, [&](int) -> bool {
    if (!R.err.empty()) return false;
    switch (ph) {
      case 0:
        R.prog = &R.S.pre; R.progBase = 0;
        R.step(1);
        if (R.tick >= preLen) {
          if (R.S.pre_stop) R.apply(W_STOP);
          R.apply(W_RESET);
          R.prog = nullptr; R.due.clear(); ph = 1; cntInPhase = 0; idleMark = R.trace.size();
        }
        break;
      case 1:
        R.step(1);
        if (R.err.empty() && R.trace.size() != idleMark) {
          const Ent &e = R.trace[idleMark];
          R.fail("after reset() of the whole tree, " + R.nn(e.node) + " still produced a '" + kEvName[e.kind] + "' event");
        }
        if (++cntInPhase >= 3) ph = 2;
        break;
      case 2:
        R.prog = &R.S.ctl; R.progBase = R.tick; R.scriptActive = true; R.due.clear();
        for (int &c : R.cnt) c = 0;
        R.dueT.clear();
        xi.mark = R.trace.size(); xi.base = R.tick; lastSize = R.trace.size();
        ph = 3;
        // fall through
      case 3:
        R.step(1);
        if (R.S.destroyAt && R.tick - R.progBase >= R.S.destroyAt && R.err.empty()) {
          // destruction at any moment: queued notifications and replay tasks must be withdrawn (ASan decides)
          delete R.root; R.root = nullptr; R.frozen = true; R.destroyed = true; ph = 8; cntInPhase = 0;
          break;
        }
        if (R.tick - R.progBase >= scriptLen) { ph = 4; lastSize = R.trace.size(); quietTicks = 0; }
        break;
      case 8:
        R.now += 1;
        if (++cntInPhase >= 4) return false;
        break;
      case 4:
        R.step(1); ++drainTicks;
        if (R.quiet(lastSize, quietTicks) || drainTicks >= 45) { ph = 5; quietTicks = 0; }
        break;
      case 5:
        R.step(kBigAdvance); ++drainTicks;
        if (R.quiet(lastSize, quietTicks)) ph = 6;
        else if (drainTicks >= kMaxDrain) { R.nonquiescent = true; ph = 6; }
        break;
      case 6:
        if (!R.nonquiescent) R.checkQuiescent();
        R.checkReference();
        R.scriptActive = false; R.prog = nullptr; R.due.clear(); R.dueT.clear(); R.ppOpen.clear();
        if (R.rt[0].st == ST_RUN || R.rt[0].st == ST_PAUSE) R.apply(W_STOP);
        R.frozen = true;
        ph = 7; cntInPhase = 0;
        break;
      case 7:
        R.step(1);
        if (++cntInPhase >= 3) { R.checkAllDead(); return false; }
        break;
      default: return false;
    }
    return R.err.empty();
  });
  return xi;
}

struct Env {
  vloop::Clock clk; std::unique_ptr<tbox::event::Loop> loop;
  Env() : clk(1000000), loop(tbox::event::Loop::New()) {}
  void settle() { vloop::passes(loop.get(), 2); }
};
void destroyTree(Run &R, Env &E) { delete R.root; R.root = nullptr; E.settle(); }

const char *strdupOnce(const std::string &s) {   // CaseInfo keeps const char*: intern the few dynamic class names
  static std::set<std::string> pool; return pool.insert(s).first->c_str();
}
void shapeClasses(const Tree &T, CaseInfo &info) {
  info.cls_if(T.depth >= 3, "depth>=3"); info.cls_if(T.depth >= 4, "depth=4");
  info.cls_if(T.hasPar, "has_parallel"); info.cls_if(T.hasPar && T.hasSerial, "parallel+serial");
  info.cls_if(T.hasLoop, "has_loop"); info.cls_if(T.hasTimeout, "timeout_set");
  info.cls_if(T.n.size() >= 10, "nodes>=10");
}

// ---------------------------------------------------------------------------------------------------- sub `tree`
std::string runTree(const Scenario &s, CaseInfo &info) {
  Tree T = parseTree(s, false, false); Script S = parseScript(s); S.pre.clear(); S.pp.clear();
  Env E; Run R(T, S, E.loop.get(), E.clk.now);
  R.buildTree();
  if (R.err.empty()) execute(R, false);
  destroyTree(R, E);
  shapeClasses(T, info);
  bool rerun = R.runs.size() >= 2 && !R.runs[1].starts.empty();
  bool finished = false, stopped = false; for (auto &r : R.runs) { if (r.result >= 0) finished = true; if (r.stopped) stopped = true; }
  info.cls_if(R.between, "ctl_between_child_finish_and_parent_handling"); info.cls_if(R.pauseBetween, "pause_between_child_finish_and_parent_handling");
  info.cls_if(rerun, "reset_then_rerun"); info.cls_if(R.resetUnderway, "reset_while_under_way");
  info.cls_if(R.twoBlocksInFlight, "two_root_block_notifications_in_flight"); info.cls_if(R.anyTimeout, "timeout_fired"); info.cls_if(R.blockSeen, "leaf_blocked");
  info.cls_if(R.pausedFinishStored, "child_finished_while_parent_paused");
  info.cls_if(finished, "root_finished"); info.cls_if(stopped, "root_stopped_under_way");
  info.cls_if(R.nonquiescent, "endless_loop"); info.cls_if(R.refCompared, "reference_result_compared");
  info.cls_if(R.refOrderCompared, "reference_start_order_compared"); info.cls_if(R.refSkipped, "reference_skipped_for_a_run");
  for (auto &c : R.tmoClasses) info.cls(strdupOnce(c));
  info.cls_if(R.timeoutAfterSet, "timeout_fired_after_settimeout");
  info.cls_if(R.finishInStop, "leaf_called_finish_inside_onStop"); info.cls_if(R.nestedStop, "nested_stop_on_node_being_stopped");
  info.cls_if(R.nCtlApplied >= 4, "ctl_calls>=4"); info.cls_if(R.destroyed, "tree_destroyed_mid_run"); info.cls_if(R.sleepAnomaly, "sleep_anomaly");
  info.nontrivial = T.depth >= 3 && T.hasPar && T.hasSerial && (R.between || rerun);
  return R.err;
}

// ---------------------------------------------------------------------------------------------- sub `reset_meta`
std::string runResetMeta(const Scenario &s, CaseInfo &info) {
  Tree T = parseTree(s, true, false); Script S = parseScript(s); S.pp.clear(); S.destroyAt = 0;
  std::vector<Ent> ta, tb; std::string err; bool underway = false, prefixActivity = false, twoBlocks = false;
  for (int pass = 0; pass < 2 && err.empty(); ++pass) {
    Env E; Run R(T, S, E.loop.get(), E.clk.now);
    R.buildTree();
    ExecInfo xi;
    if (R.err.empty()) xi = execute(R, pass == 1);
    destroyTree(R, E);
    if (!R.err.empty()) { err = std::string(pass ? "[prefix; reset; S] " : "[S on a fresh tree] ") + R.err; break; }
    auto &dst = pass ? tb : ta;
    for (size_t i = xi.mark; i < R.trace.size(); ++i) dst.push_back(Ent{R.trace[i].tick - xi.base, R.trace[i].node, R.trace[i].kind});
    if (pass == 1) { underway = R.resetUnderway; prefixActivity = xi.mark > 4; twoBlocks = R.twoBlocksInFlight; }
  }
  if (err.empty()) {
    size_t i = 0; while (i < ta.size() && i < tb.size() && ta[i] == tb[i]) ++i;
    if (i < ta.size() || i < tb.size()) {
      auto show = [&](const std::vector<Ent> &v) { return i < v.size() ? "pass " + std::to_string(v[i].tick) + " " + nodeName(T, v[i].node) + " " + kEvName[v[i].kind] : std::string("<end>"); };
      err = "S behaves differently after 'prefix; reset' than on a freshly built tree: event #" + std::to_string(i) + " fresh: " + show(ta) + " / after reset: " + show(tb);
    }
  }
  shapeClasses(T, info);
  info.cls_if(underway, "reset_while_under_way"); info.cls_if(prefixActivity, "prefix_ran_something"); info.cls_if(twoBlocks, "two_root_block_notifications_in_flight");
  info.nontrivial = T.depth >= 2 && !isLeaf(T.n[0].kind) && prefixActivity && underway;
  return err;
}

// ---------------------------------------------------------------------------------------------- sub `pause_meta`
std::string runPauseMeta(const Scenario &s, CaseInfo &info) {
  Tree T = parseTree(s, true, true); Script S = parseScript(s); S.pre.clear(); S.ev.clear(); S.cb.clear(); S.tset.clear(); S.tsetev.clear(); S.destroyAt = 0;
  { std::vector<Ctl> keep; for (auto &c : S.ctl) if (c.what == W_START) keep.push_back(c); if (keep.empty()) keep.push_back({0, W_START, 0}); S.ctl.swap(keep); }
  if (S.autores == 0) S.autores = 2;   // a leaf that blocks is always resumed: otherwise the resume() of an inserted pair would double as that resume
  Script SA = S; SA.pp.clear();
  std::vector<RootRun> ra, rc; std::string err; bool stored = false; int pauses = 0; bool nonq = false;
  for (int pass = 0; pass < 2 && err.empty(); ++pass) {
    Env E; Run R(T, pass ? S : SA, E.loop.get(), E.clk.now);
    R.allowStopInFinal = false;   // which branch a Parallel cuts is race dependent
    R.buildTree();
    if (R.err.empty()) execute(R, false);
    destroyTree(R, E);
    if (!R.err.empty()) { err = std::string(pass ? "[S with pause/resume pairs] " : "[S] ") + R.err; break; }
    (pass ? rc : ra) = R.runs; nonq |= R.nonquiescent;
    if (pass) { stored = R.pauseBetween; for (auto &e : R.trace) if (e.kind == EV_CTL + W_PAUSE) ++pauses; }
  }
  Ref ref(T); int out; ref.eval(0, out);
  bool comparable = !ref.ambInLoop && !ref.truncated && !nonq;
  if (err.empty() && comparable) {
    if (ra.size() != rc.size()) err = "number of root runs differs";
    for (size_t k = 0; k < ra.size() && err.empty(); ++k) {
      if (ra[k].result != rc[k].result) err = "inserting pause/resume pairs changed the root result of run " + std::to_string(k + 1) + ": " + std::to_string(ra[k].result) + " -> " + std::to_string(rc[k].result) + " (-1 = did not finish)";
      else if (!ref.ambiguous) {
        auto a = ra[k].starts, c = rc[k].starts;
        if (!T.hasPar && a != c) err = "inserting pause/resume pairs changed the leaf start order of run " + std::to_string(k + 1);
        std::sort(a.begin(), a.end()); std::sort(c.begin(), c.end());
        if (err.empty() && a != c) err = "inserting pause/resume pairs changed how often leaves are started in run " + std::to_string(k + 1);
      }
    }
  }
  shapeClasses(T, info);
  info.cls_if(pauses > 0, "pause_took_effect"); info.cls_if(stored, "pause_between_child_finish_and_parent_handling"); info.cls_if(!comparable, "not_comparable");
  info.nontrivial = pauses > 0 && stored && T.depth >= 2;
  return err;
}


// ------------------------------------------------------------------------------------------------ sub `executor`
// ActionExecutor is not part of the statement (DESIGN.md C17 Lim.): smoke test only.  One op per loop pass on an executor
// with Dummy / Succ / Fail actions; ASan plus three light invariants taken from action_executor.h: an id is reported
// started at most once and finished at most once (started first), and at most one appended action is running at a time.
enum { X_ADD, X_FIN, X_CANCEL, X_CANCELCUR, X_CANCELALL, X_IDLE, X_NOPS };
struct XItem { int id; Action *act; int kind; bool alive; int started = 0, finished = 0; };
struct XCtx { std::vector<XItem> items; };
template <class Base> struct XProbe : Base {
  XCtx *ctx_; size_t slot_;
  XProbe(XCtx *c, size_t slot, tbox::event::Loop &l) : Base(l), ctx_(c), slot_(slot) {}
  ~XProbe() override { ctx_->items[slot_].alive = false; }
};
std::string runExecutor(const Scenario &s, CaseInfo &info) {
  using namespace tbox::flow;
  Env E; XCtx C; std::string err; int preempt = 0, cancels = 0;
  {
    ActionExecutor exec;
    auto find = [&C](int id) -> XItem * { for (auto &it : C.items) if (it.id == id) return &it; return nullptr; };
    exec.setActionStartedCallback([&](int id) { if (auto *it = find(id)) { if (++it->started > 1 && err.empty()) err = "action id " + std::to_string(id) + " reported started twice"; } });
    exec.setActionFinishedCallback([&](int id) { if (auto *it = find(id)) { if (++it->finished > 1 && err.empty()) err = "action id " + std::to_string(id) + " reported finished twice"; } });
    C.items.reserve(64);
    size_t pc = 0;
    vloop::drive(E.loop.get(), [&](int) -> bool {
      if (!err.empty() || pc >= s.ops.size() || pc >= 60) return false;
      const Op &op = s.ops[pc++];
      std::vector<XItem *> live; for (auto &it : C.items) if (it.alive) live.push_back(&it);
      switch (op.code) {
        case X_ADD: if (C.items.size() < 40) {
          int kind = (int)op.in(0, 0, 2), prio = (int)op.in(1, 0, 2); size_t slot = C.items.size();
          C.items.push_back(XItem{-1, nullptr, kind, true});
          Action *a = kind == 0 ? (Action *)new XProbe<DummyAction>(&C, slot, *E.loop) : kind == 1 ? (Action *)new XProbe<SuccAction>(&C, slot, *E.loop) : (Action *)new XProbe<FailAction>(&C, slot, *E.loop);
          C.items[slot].act = a;
          int running = 0; for (auto *it : live) if (it->act->state() == Action::State::kRunning) ++running;
          C.items[slot].id = (int)slot + 1;   // ids come from a counter (the started callback runs inside append())
          // the id is needed by the started callback, which runs inside append(): ids are documented to be allocated by a counter
          int id = exec.append(a, prio);
          C.items[slot].id = id;
          if (running && C.items[slot].alive && a->state() != Action::State::kIdle) ++preempt;
          break; }
        case X_FIN: if (!live.empty()) { XItem *it = live[op.in(0, 0, (int64_t)live.size() - 1)];
          if (it->kind == 0 && it->act->state() == Action::State::kRunning) static_cast<DummyAction *>(it->act)->emitFinish(op.in(1, 0, 1) != 0); }
          break;
        case X_CANCEL: if (!live.empty()) { XItem *it = live[op.in(0, 0, (int64_t)live.size() - 1)]; if (it->id > 0) { exec.cancel(it->id); ++cancels; } } break;
        case X_CANCELCUR: exec.cancelCurrent(); ++cancels; break;
        case X_CANCELALL: exec.cancelAll(); ++cancels; break;
        default: break;
      }
      int running = 0; for (auto &it : C.items) if (it.alive && it.act->state() == Action::State::kRunning) ++running;
      if (running > 1 && err.empty()) err = "op " + std::to_string(pc - 1) + ": " + std::to_string(running) + " appended actions are running at the same time";
      for (auto &it : C.items) if (it.finished > it.started + (it.started == 0 ? 1 : 0) && err.empty()) err = "finished callback count exceeds started";
      return true;
    });
    exec.cancelAll();
    vloop::passes(E.loop.get(), 3);
  }
  E.settle();
  for (auto &it : C.items) if (it.alive && err.empty()) err = "an appended action was neither deleted by the executor on finish/cancel nor by its destructor";
  info.cls_if(preempt > 0, "higher_priority_preempts"); info.cls_if(cancels > 0, "cancel_used"); info.cls_if(C.items.size() >= 5, "actions>=5");
  info.nontrivial = preempt > 0 && cancels > 0;
  return err;
}

// ------------------------------------------------------------------------------------------------------ generators
#ifndef VERIF_ENGINE_FUZZ
struct Rng {
  uint64_t st;
  explicit Rng(int64_t seed) : st((uint64_t)seed * 0x9E3779B97F4A7C15ull + 0x51ed27ull) {}
  uint64_t next() { uint64_t z = (st += 0x9E3779B97F4A7C15ull); z = (z ^ (z >> 30)) * 0xBF58476D1CE4E5B9ull; z = (z ^ (z >> 27)) * 0x94D049BB133111EBull; return z ^ (z >> 31); }
  int64_t rng(int64_t lo, int64_t hi) { return lo + (int64_t)(next() % (uint64_t)(hi - lo + 1)); }
  bool chance(int pct) { return rng(0, 99) < pct; }
  int64_t pick(std::initializer_list<std::pair<int, int64_t>> w) {
    int total = 0; for (auto &p : w) total += p.first;
    int64_t x = rng(0, total - 1);
    for (auto &p : w) { if (x < p.first) return p.second; x -= p.first; }
    return 0;
  }
};
void mk(Scenario &sc, int code, std::vector<int64_t> a) { Op o; o.code = code; o.a = std::move(a); sc.ops.push_back(std::move(o)); }

struct TreeGen {
  Rng &g; Scenario &sc; int count = 0, budget; bool timeouts, sleeps; int leaves = 0; bool blocky;   // blocky: most Dummy leaves block first
  TreeGen(Rng &r, Scenario &s, int b, bool t, bool sl, bool bl) : g(r), sc(s), budget(b), timeouts(t), sleeps(sl), blocky(bl) {}
  void node(int parent, int depth) {
    bool composite = depth < kMaxDepth && budget - count >= 2 && g.chance(depth == 1 ? 94 : depth == 2 ? 62 : 42);
    int kind;
    if (composite && blocky && depth == 1 && g.chance(55)) kind = K_PAR;
    else if (composite) kind = (int)g.pick({{16, K_SEQ}, {18, K_PAR}, {8, K_IFELSE}, {7, K_IFTHEN}, {7, K_SWITCH}, {8, K_LOOP}, {6, K_LOOPIF}, {9, K_REPEAT}, {8, K_WRAPPER}, {6, K_COMPOSITE}});
    else kind = (int)g.pick({{9, K_SUCC}, {7, K_FAIL}, {blocky ? 10 : 26, K_FUNC}, {blocky ? 70 : 48, K_DUMMY}, {sleeps ? 8 : 0, K_SLEEP}});
    int64_t mode = g.rng(0, 11);
    if (kind == K_LOOP) mode = g.pick({{12, 0}, {44, 1}, {44, 2}});
    int64_t mask = g.pick({{28, 0xff}, {12, 0}, {60, -1}}); if (mask < 0) mask = g.rng(0, 255);
    int64_t a = mask | (g.rng(0, 511) << 8);
    if (g.chance(composite ? 12 : 22)) a |= ((int64_t)1 << 17) | (g.rng(0, 1) << 18);
    int64_t type = blocky ? g.pick({{30, 0}, {64, 4}, {6, 7}}) : g.pick({{70, 0}, {20, 4}, {10, 7}});
    int64_t b = type + 8 * g.pick({{40, 0}, {25, 1}, {15, 2}, {10, 3}, {5, 4}, {5, 5}}) + 48 * g.rng(0, 3);
    int64_t tmo = 0;
    if (timeouts && g.chance(composite ? 14 : 7)) tmo = g.chance(55) ? g.rng(1, 40) : g.rng(41, 63);
    mk(sc, NODE, {parent < 0 ? 0 : parent, kind, mode, a, b, tmo});
    int me = count++;
    if (!composite) { ++leaves; return; }
    int nk;
    switch (kind) {
      case K_SEQ: nk = (int)g.pick({{3, 0}, {17, 1}, {40, 2}, {28, 3}, {12, 4}}); break;
      case K_PAR: nk = (int)g.pick({{2, 0}, {6, 1}, {50, 2}, {30, 3}, {12, 4}}); break;
      case K_IFELSE: nk = (int)g.rng(2, 3); break;
      case K_IFTHEN: nk = (int)g.pick({{55, 2}, {35, 4}, {10, 6}}); break;
      case K_SWITCH: nk = (int)g.rng(2, 5); break;
      case K_LOOPIF: nk = 2; break;
      default: nk = 1; break;
    }
    for (int i = 0; i < nk; ++i) { if (count >= budget) break; node(me, depth + 1); }
  }
};
void genTree(Rng &g, Scenario &sc, bool timeouts, bool sleeps, bool blocky) {
  int budget = (int)g.pick({{6, 3}, {18, 6}, {30, 10}, {28, 14}, {18, 18}});
  TreeGen tg(g, sc, budget, timeouts, sleeps, blocky);
  tg.node(-1, 1);
}
int64_t genWhat(Rng &g) { return g.pick({{2, W_START}, {30, W_PAUSE}, {26, W_RESUME}, {22, W_STOP}, {12, W_RESET}}); }

// setTimeout()/resetTimeout() at arbitrary moments; 40 % of them inside a generated pause of the root that outlasts the timeout
void genTimeoutOps(Rng &g, Scenario &sc, int pct) {
  if (!g.chance(pct)) return;
  int n = (int)g.pick({{60, 1}, {30, 2}, {10, 3}});
  for (int i = 0; i < n; ++i) {
    int64_t node = g.pick({{35, 0}, {65, -1}}); if (node < 0) node = g.rng(0, kMaxNodes - 1);
    int64_t ms = g.pick({{45, -1}, {30, -2}, {25, 50}}); if (ms == -1) ms = g.rng(1, 4); else if (ms == -2) ms = g.rng(5, 40);
    switch (g.pick({{40, 0}, {30, 1}, {12, 2}, {18, 3}})) {
      case 0: { int64_t t = g.rng(0, 10), len = g.pick({{25, -1}, {75, -2}}); if (len == -2) len = g.rng(2, 9);   // pause; setTimeout; (resume)
        mk(sc, CTL, {t, W_PAUSE, g.rng(0, 1)});
        mk(sc, TSET, {t + g.rng(0, 1), node, ms, 1});
        if (len >= 0) mk(sc, CTL, {t + len, W_RESUME, g.rng(0, 1)});
        break; }
      case 1: mk(sc, TSET, {g.rng(0, 14), node, ms, g.rng(0, 1)}); break;
      case 2: mk(sc, TRESET, {g.rng(0, 14), node, g.rng(0, 1)}); break;
      default: mk(sc, TSETEV, {g.pick({{35, EC_LEAF_FIN}, {20, EC_NODE_FIN}, {15, EC_LEAF_START}, {15, EC_ROOT_BLOCK}, {15, EC_LEAF_BLOCK}}), g.pick({{50, 1}, {30, 2}, {20, 3}}), node, ms}); break;
    }
  }
}
Scenario expandTree(int64_t seed) {
  Rng g(seed); Scenario sc; bool blocky = g.chance(14);
  mk(sc, CFG, {blocky ? g.pick({{60, 1}, {25, 2}, {15, 0}}) : g.pick({{18, 0}, {30, 1}, {30, 2}, {12, 3}, {10, 4}}), 0, g.chance(6) ? g.rng(1, 14) : 0});
  genTree(g, sc, true, true, blocky);
  mk(sc, CTL, {g.pick({{80, 0}, {15, 1}, {5, 3}}), W_START, 0});
  int style = (int)g.pick({{22, 0}, {78, 1}});
  if (style == 1) {
    int n = (int)g.pick({{35, 1}, {30, 2}, {20, 3}, {15, 5}});
    for (int i = 0; i < n; ++i) {
      switch (g.pick({{20, 0}, {34, 1}, {8, 2}, {14, 3}, {14, 4}, {8, 5}, {8, 6}})) {
        case 0: mk(sc, CTL, {g.rng(0, 14), genWhat(g), g.rng(0, 1)}); break;
        case 1: { int64_t cls = g.pick({{40, EC_LEAF_FIN}, {30, EC_NODE_FIN}, {12, EC_LEAF_START}, {10, EC_ROOT_BLOCK}, {8, EC_LEAF_BLOCK}});
          int64_t n1 = g.pick({{40, 1}, {25, 2}, {15, 3}, {20, -1}}); if (n1 < 0) n1 = g.rng(4, 9);
          int64_t w = genWhat(g), dl = g.pick({{70, 0}, {20, 1}, {10, 2}});
          mk(sc, CTLEV, {cls, n1, w, dl});
          if (w == W_PAUSE && g.chance(85)) mk(sc, CTLEV, {cls, n1, W_RESUME, dl + g.pick({{30, 0}, {35, 1}, {20, 2}, {15, 3}})});
          break; }
        case 2: mk(sc, CTLCB, {g.rng(1, 6), genWhat(g)}); break;
        case 3: { int64_t t = g.rng(0, 12), len = g.rng(0, 5); mk(sc, CTL, {t, W_PAUSE, g.rng(0, 1)}); mk(sc, CTL, {t + len, W_RESUME, g.rng(0, 1)}); break; }
        case 4: { int64_t t = g.rng(1, 16);   // stop / reset / start again
          if (g.chance(75)) mk(sc, CTL, {t, W_STOP, g.rng(0, 1)});
          mk(sc, CTL, {t + g.rng(0, 2), W_RESET, g.rng(0, 1)});
          mk(sc, CTL, {t + g.rng(2, 4), W_START, g.rng(0, 1)}); break; }
        case 6: { int64_t n1 = g.pick({{70, 1}, {30, 2}});   // restart (or stop / reset only) from inside the root's finish callback
          int64_t k = g.pick({{50, 0}, {25, 1}, {25, 2}});
          if (k == 1) mk(sc, CTLEV, {EC_ROOT_FIN_CB, n1, W_STOP, 0});
          else { mk(sc, CTLEV, {EC_ROOT_FIN_CB, n1, W_RESET, 0}); if (k == 0) mk(sc, CTLEV, {EC_ROOT_FIN_CB, n1, W_START, 0}); }
          break; }
        default: mk(sc, ADV, {g.rng(0, 14), g.pick({{50, 700}, {30, -1}, {20, 2000}}) < 0 ? g.rng(3, 60) : 700}); break;
      }
    }
  }
  genTimeoutOps(g, sc, 22);
  return sc;
}
Scenario expandResetMeta(int64_t seed) {
  Rng g(seed); Scenario sc; bool blocky = g.chance(14);
  mk(sc, CFG, {blocky ? g.pick({{60, 1}, {25, 2}, {15, 0}}) : g.pick({{25, 0}, {30, 1}, {30, 2}, {15, 3}}), g.pick({{55, 0}, {45, 1}})});
  genTree(g, sc, true, false, blocky);
  mk(sc, PRE, {0, W_START, 0});
  int np = (int)g.pick({{30, 0}, {35, 1}, {25, 2}, {10, 3}});
  for (int i = 0; i < np; ++i) mk(sc, PRE, {g.rng(1, 10), genWhat(g), g.rng(0, 1)});
  mk(sc, PRE, {g.rng(1, 12), W_RESUME, 0});   // also fixes the length of the prefix
  mk(sc, CTL, {0, W_START, 0});
  if (g.chance(40)) { int64_t t = g.rng(0, 10); mk(sc, CTL, {t, W_PAUSE, g.rng(0, 1)}); mk(sc, CTL, {t + g.rng(0, 4), W_RESUME, g.rng(0, 1)}); }
  if (g.chance(20)) mk(sc, CTL, {g.rng(2, 14), W_STOP, g.rng(0, 1)});
  if (g.chance(20)) mk(sc, ADV, {g.rng(0, 12), 700});
  genTimeoutOps(g, sc, 15);
  return sc;
}
Scenario expandPauseMeta(int64_t seed) {
  Rng g(seed); Scenario sc;
  mk(sc, CFG, {g.pick({{10, 0}, {35, 1}, {35, 2}, {20, 3}}), 0});
  genTree(g, sc, false, false, g.chance(14));
  mk(sc, CTL, {0, W_START, 0});
  int np = (int)g.pick({{45, 1}, {35, 2}, {20, 4}});
  for (int i = 0; i < np; ++i) mk(sc, PP, {g.rng(0, 12), g.pick({{30, 0}, {30, 1}, {25, 2}, {15, 5}}), g.rng(0, 1)});
  return sc;
}

rc::Gen<Scenario> genFrom(Scenario (*expand)(int64_t)) {
  auto base = rc::gen::map(rc::gen::noShrink(range(0, (int64_t)1 << 62)), expand);
  return rc::gen::shrink(base, [](const Scenario &s) {
    std::vector<Scenario> out; size_t n = s.ops.size();
    for (size_t chunk = n / 2; chunk >= 1; chunk /= 2) {
      for (size_t at = 0; at + chunk <= n; at += chunk) {
        Scenario t; t.ops.reserve(n - chunk);
        for (size_t i = 0; i < n; ++i) if (i < at || i >= at + chunk) t.ops.push_back(s.ops[i]);
        out.push_back(std::move(t));
      }
      if (chunk == 1) break;
    }
    for (size_t i = 0; i < n; ++i)
      for (size_t k = 0; k < s.ops[i].a.size(); ++k)
        if (s.ops[i].a[k] != 0) { Scenario t = s; t.ops[i].a[k] = 0; out.push_back(std::move(t)); if (s.ops[i].a[k] > 1) { Scenario u = s; u.ops[i].a[k] = s.ops[i].a[k] / 2; out.push_back(std::move(u)); } }
    return rc::seq::fromContainer(std::move(out));
  });
}
#endif

#ifndef VERIF_ENGINE_FUZZ
// Seed-corpus writer (maintenance aid, off unless VERIF_C17_DUMP_DIR is set): stores non-trivial generated cases in the
// byte encoding understood by verif::default_decode, for corpus/C17/tree/.
void dumpSeed(const Scenario &s, const std::vector<int> &arity) {
  static const char *dir = getenv("VERIF_C17_DUMP_DIR");
  static int written = 0;
  if (!dir || written >= 48) return;
  std::string b;
  for (auto &op : s.ops) {
    b += (char)op.code;
    for (int k = 0; k < arity[op.code]; ++k) {
      int64_t v = op.arg(k);
      if (v >= 0 && v < 128) { b += (char)v; continue; }
      uint64_t u = v < 0 ? 0 - (uint64_t)v : (uint64_t)v; int n = 1; while (n < 8 && (u >> (8 * n))) ++n;
      b += (char)(0x80 | ((n - 1) << 4) | (v < 0 ? 1 : 0));
      for (int j = n - 1; j >= 0; --j) b += (char)(u >> (8 * j));
    }
  }
  if (b.size() > 500) return;
  char name[600]; snprintf(name, sizeof name, "%s/gen-%016llx.bin", dir, (unsigned long long)fnv1a(b));
  write_file(name, b); ++written;
}
#endif

const std::vector<const char *> kOpNames = {"cfg", "node", "ctl", "ctlev", "ctlcb", "adv", "pre", "pp", "tset", "treset", "tsetev"};
const std::vector<int> kOpArity = {3, 6, 3, 4, 2, 2, 3, 3, 4, 3, 4};

SubDef defTree = [] {
  SubDef d; d.name = "tree"; d.op_names = kOpNames; d.op_arity = kOpArity;
  d.nt_rule = "tree of depth >= 3 with a Parallel and a serial composite, and a control call placed in the pass between a child's finish and its parent's handling of it, or a reset followed by a re-run that started leaves";
#ifndef VERIF_ENGINE_FUZZ
  d.run = [](const Scenario &s, CaseInfo &info) { std::string e = runTree(s, info); if (e.empty() && info.nontrivial) dumpSeed(s, kOpArity); return e; };
  d.gen = [] { return genFrom(expandTree); };
#else
  d.run = runTree;
#endif
  return d;
}();
VERIF_REGISTER(&defTree);

SubDef defReset = [] {
  SubDef d; d.name = "reset_meta"; d.op_names = kOpNames; d.op_arity = kOpArity;
  d.nt_rule = "composite root of depth >= 2 whose prefix script ran something and was still under way (running or paused) when reset() was applied";
  d.run = runResetMeta;
#ifndef VERIF_ENGINE_FUZZ
  d.gen = [] { return genFrom(expandResetMeta); };
#endif
  return d;
}();
VERIF_REGISTER(&defReset);

SubDef defPause = [] {
  SubDef d; d.name = "pause_meta"; d.op_names = kOpNames; d.op_arity = kOpArity;
  d.nt_rule = "depth >= 2, an inserted pause took effect on the running root in the pass between a child's finish and its parent's handling of it";
  d.run = runPauseMeta;
#ifndef VERIF_ENGINE_FUZZ
  d.gen = [] { return genFrom(expandPauseMeta); };
#endif
  return d;
}();
VERIF_REGISTER(&defPause);
SubDef defExec = [] {
  SubDef d; d.name = "executor";
  d.op_names = {"add", "fin", "cancel", "cancelcur", "cancelall", "idle"}; d.op_arity = {2, 2, 1, 0, 0, 0};
  d.nt_rule = "an action appended with a higher priority pre-empted a running one and some cancel call was made";
  d.run = runExecutor;
#ifndef VERIF_ENGINE_FUZZ
  d.gen = [] {
    auto opg = rc::gen::weightedOneOf<Op>({{8, mkop(X_ADD, {range(0, 2), range(0, 2)})}, {6, mkop(X_FIN, {range(0, 9), range(0, 1)})},
      {2, mkop(X_CANCEL, {range(0, 9)})}, {1, mkop(X_CANCELCUR, {})}, {1, mkop(X_CANCELALL, {})}, {3, mkop(X_IDLE, {})}});
    return rc::gen::map(opsOf(opg), [](std::vector<Op> v) { Scenario s; s.ops = std::move(v); return s; });
  };
#endif
  return d;
}();
VERIF_REGISTER(&defExec);
}  // namespace
