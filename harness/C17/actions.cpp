// C17 — action trees finish once with the documented result; nothing is left running.
//
// A scenario is a flat op list: a tree definition (`node` ops, position independent among themselves) plus a control
// script on the ROOT (`ctl` = at a loop pass, `ctlev` = in the pass in which the n-th event of a class happened, i.e.
// between a finish/block and the parent's handling of it, `ctlcb` = posted with runNext() from the n-th leaf start),
// clock advances (`adv`) and, for the metamorphic subs, a prefix script (`pre`) or pause/resume pairs (`pp`).
//
// Real side: every node is the library class wrapped in Probe<> (a subclass that only overrides the protected virtual
// hooks onStart/onStop/onPause/onResume/onReset/onBlock/onFinished/onTimeout to record an event and then calls the
// base implementation; subclassing is the library's documented extension mechanism).  The loop is driven by
// vloop::drive with the virtual clock (hook H1); Dummy leaves are driven by the scenario.
//
// Oracles (see NOTES.md for what is pinned by which header comment / unit test and what is left free):
//  (2) per-node conformance monitors + invariants, evaluated at every event and after every pass:
//      each composite may only start the child / finish with the result that its documented pseudo-code yields from
//      the results of its children seen so far (nothing extra), must have done so by final quiescence (nothing
//      missing), no start while under way, nothing under a finished/stopped node running or paused, everything under
//      an idle (reset) node idle, no finish()/block() accepted by a reset action, no root callback after stop/reset,
//      final hook exactly once per run, state()/result() equal to what the callbacks said.
//  (1) functional reference: a recursive evaluator of the pseudo-code over the scripted leaf outcomes predicts, per
//      run of the root, the result and the (series-parallel) order of leaf starts.
//  (3) metamorphic subs: `prefix; reset; S` vs `S` on a fresh tree (whole event trace); `S` vs `S + pause/resume pairs`.
#include <nlohmann/json.hpp>
#define VERIF_MAIN
#include "../common/verif.h"
#include "../common/vloop.h"
#include <tbox/flow/action.h>
#include <tbox/flow/action_executor.h>
#include <tbox/flow/actions/sequence_action.h>
#include <tbox/flow/actions/parallel_action.h>
#include <tbox/flow/actions/if_else_action.h>
#include <tbox/flow/actions/if_then_action.h>
#include <tbox/flow/actions/switch_action.h>
#include <tbox/flow/actions/loop_action.h>
#include <tbox/flow/actions/loop_if_action.h>
#include <tbox/flow/actions/repeat_action.h>
#include <tbox/flow/actions/wrapper_action.h>
#include <tbox/flow/actions/composite_action.h>
#include <tbox/flow/actions/function_action.h>
#include <tbox/flow/actions/sleep_action.h>
#include <tbox/flow/actions/dummy_action.h>
#include <tbox/flow/actions/succ_fail_action.h>
#include <algorithm>
#include <memory>

using namespace verif;
using tbox::flow::Action;

namespace {

// Shapes that hit a listed, not-yet-fixed finding are avoided behind these switches (none at present: every
// confirmed defect has a fix in proposed-fixes/, so nothing is avoided).
static const bool kAvoid_none = false;

// ------------------------------------------------------------------------------------------------------ scenario
enum { CFG, NODE, CTL, CTLEV, CTLCB, ADV, PRE, PP, NOPS };
enum Kind { K_SEQ, K_PAR, K_IFELSE, K_IFTHEN, K_SWITCH, K_LOOP, K_LOOPIF, K_REPEAT, K_WRAPPER, K_COMPOSITE,
            K_SUCC, K_FAIL, K_FUNC, K_DUMMY, K_SLEEP, NKIND };
const char *kKindName[] = {"Sequence", "Parallel", "IfElse", "IfThen", "Switch", "Loop", "LoopIf", "Repeat", "Wrapper", "Composite",
                           "Succ", "Fail", "Function", "Dummy", "Sleep"};
enum What { W_START, W_PAUSE, W_RESUME, W_STOP, W_RESET, NWHAT };
const char *kWhatName[] = {"start", "pause", "resume", "stop", "reset"};
enum EvClass { EC_LEAF_FIN, EC_NODE_FIN, EC_LEAF_START, EC_ROOT_BLOCK, EC_LEAF_BLOCK, NEVCLASS };

const int kMaxNodes = 20, kMaxDepth = 4, kScriptTicks = 40, kMaxDrain = 150, kQuietTicks = 9;
const int64_t kLongTimeout = 100000, kSleepBase = 600, kBigAdvance = 10000000;

inline bool isLeaf(int k) { return k >= K_SUCC; }
inline int minKids(int k) { switch (k) { case K_SEQ: case K_PAR: return 0; case K_IFELSE: case K_IFTHEN: case K_SWITCH: case K_LOOPIF: return 2; default: return isLeaf(k) ? 0 : 1; } }
inline int maxKids(int k) { switch (k) { case K_SEQ: case K_PAR: return 4; case K_IFELSE: return 3; case K_IFTHEN: return 6; case K_SWITCH: return 5; case K_LOOPIF: return 2; default: return isLeaf(k) ? 0 : 1; } }

struct TNode {
  int kind = K_SUCC, mode = 0, parent = -1, depth = 1, tmo = 0;
  int64_t a = 0, b = 0;
  std::vector<int> ch;
  // leaf script
  int mask() const { return (int)(a & 0xff); }
  int dtype() const { int t = (int)(b % 8); return t == 7 ? 2 : (t == 4 || t == 5) ? 1 : 0; }   // 0 finish, 1 block then finish, 2 never
  int delay() const { return (int)((b / 8) % 6); }
  int delay2() const { return (int)((b / 48) % 4); }
  int times() const { return 1 + (int)(a % 4); }   // Repeat
};
struct Tree {
  std::vector<TNode> n;
  int depth = 1; bool hasPar = false, hasSerial = false, hasLoop = false, hasTimeout = false;
  bool isDesc(int x, int anc) const { while (x >= 0) { if (x == anc) return true; x = n[x].parent; } return false; }
  int childIndex(int p, int c) const { for (size_t i = 0; i < n[p].ch.size(); ++i) if (n[p].ch[i] == c) return (int)i; return -1; }
};

// Switch: what the selector leaf says in its run number `run` (0-based): >= 0 case index, -1 an unknown case name, -2 no message
int switchSel(const Tree &T, int sw, int run) {
  const TNode &d = T.n[sw]; const TNode &s = T.n[d.ch[0]];
  int ncase = (int)d.ch.size() - 1 - ((d.mode & 1) && d.ch.size() >= 3 ? 1 : 0);
  if (s.kind != K_FUNC && s.kind != K_DUMMY) return -1;   // Succ / Fail / Sleep finish with their own fixed message
  int v = (int)(((s.a >> 8) + (int64_t)run * ((s.a >> 16) & 1)) % (ncase + 2));
  return v < ncase ? v : (v == ncase ? -1 : -2);
}
bool switchHasDefault(const TNode &d) { return (d.mode & 1) && d.ch.size() >= 3; }
std::string selMessage(int sel) { return sel >= 0 ? "case:" + std::to_string(sel) : (sel == -1 ? "case:none" : ""); }

struct Ctl { int tick, what, phase; };
struct CtlEv { int cls, n, what, delay; };
struct CtlCb { int n, what; };
struct Script {
  std::vector<Ctl> ctl; std::vector<CtlEv> ev; std::vector<CtlCb> cb; std::vector<std::pair<int, int64_t>> adv;
  std::vector<Ctl> pre; std::vector<std::array<int, 3>> pp;
  int autores = 0; bool pre_stop = false;
};

Tree parseTree(const Scenario &s, bool noSleep, bool noTimeout) {
  Tree T; int pendingFill = 0;
  for (auto &op : s.ops) {
    if (op.code != NODE) continue;
    int k = (int)T.n.size();
    TNode nd; nd.kind = (int)op.in(1, 0, NKIND - 1); nd.mode = (int)op.in(2, 0, 11); nd.a = op.in(3, 0, (1 << 20) - 1); nd.b = op.in(4, 0, 191);
    int t = (int)op.in(5, 0, 63); nd.tmo = t == 0 ? 0 : (t <= 40 ? t : (int)kLongTimeout);
    if (noTimeout) nd.tmo = 0;
    int parent = -1;
    if (k > 0) {
      int want = (int)op.in(0, 0, k - 1);
      for (int i = 0; i < k && parent < 0; ++i) {
        int j = (want + i) % k; const TNode &p = T.n[j];
        if (!isLeaf(p.kind) && p.depth < kMaxDepth && (int)p.ch.size() < maxKids(p.kind)) parent = j;
      }
      if (parent < 0) continue;
      nd.parent = parent; nd.depth = T.n[parent].depth + 1;
      if (nd.depth >= kMaxDepth && !isLeaf(nd.kind)) nd.kind = K_SUCC + nd.kind % 5;
      if (T.n[parent].kind == K_SWITCH && T.n[parent].ch.empty() && !isLeaf(nd.kind)) nd.kind = (nd.kind & 1) ? K_DUMMY : K_FUNC;
    }
    if (noSleep && nd.kind == K_SLEEP) nd.kind = K_DUMMY;
    int fillAfter = pendingFill + minKids(nd.kind);
    if (parent >= 0 && (int)T.n[parent].ch.size() < minKids(T.n[parent].kind)) fillAfter--;
    if (k + 1 + fillAfter > kMaxNodes) continue;
    pendingFill = fillAfter;
    if (parent >= 0) T.n[parent].ch.push_back(k);
    T.n.push_back(nd);
  }
  if (T.n.empty()) { TNode nd; nd.kind = K_SUCC; T.n.push_back(nd); }
  // fill composites that lack documented-mandatory children with synthetic leaves (isReady() must hold)
  for (size_t p = 0; p < T.n.size(); ++p) {
    if (isLeaf(T.n[p].kind)) continue;
    for (;;) {
      int have = (int)T.n[p].ch.size(), need = minKids(T.n[p].kind);
      if (T.n[p].kind == K_IFTHEN && (have & 1)) need = have + 1;
      if (have >= need) break;
      TNode nd; nd.parent = (int)p; nd.depth = T.n[p].depth + 1;
      int64_t x = T.n[p].b / 3 + have * 7 + T.n[p].a;
      nd.kind = K_SUCC + (int)(x % 4); nd.a = (T.n[p].a >> have) ^ x; nd.b = (x * 5) % 48;   // Succ/Fail/Function/Dummy(finishing)
      T.n[p].ch.push_back((int)T.n.size()); T.n.push_back(nd);
    }
  }
  for (auto &nd : T.n) {
    T.depth = std::max(T.depth, nd.depth);
    if (nd.kind == K_PAR) T.hasPar = true; else if (!isLeaf(nd.kind)) T.hasSerial = true;
    if (nd.kind == K_LOOP || nd.kind == K_LOOPIF || nd.kind == K_REPEAT) T.hasLoop = true;
    if (nd.tmo) T.hasTimeout = true;
  }
  return T;
}

Script parseScript(const Scenario &s) {
  Script sc;
  for (auto &op : s.ops) {
    switch (op.code) {
      case CFG: sc.autores = (int)op.in(0, 0, 4); sc.pre_stop = op.in(1, 0, 1) != 0; break;
      case CTL: if (sc.ctl.size() < 24) sc.ctl.push_back({(int)op.in(0, 0, kScriptTicks - 1), (int)op.in(1, 0, NWHAT - 1), (int)op.in(2, 0, 1)}); break;
      case CTLEV: if (sc.ev.size() < 12) sc.ev.push_back({(int)op.in(0, 0, NEVCLASS - 1), (int)op.in(1, 1, 12), (int)op.in(2, 0, NWHAT - 1), (int)op.in(3, 0, 3)}); break;
      case CTLCB: if (sc.cb.size() < 8) sc.cb.push_back({(int)op.in(0, 1, 12), (int)op.in(1, 0, NWHAT - 1)}); break;
      case ADV: if (sc.adv.size() < 8) sc.adv.push_back({(int)op.in(0, 0, kScriptTicks - 1), op.in(1, 0, 2000)}); break;
      case PRE: if (sc.pre.size() < 12) sc.pre.push_back({(int)op.in(0, 0, 15), (int)op.in(1, 0, NWHAT - 1), (int)op.in(2, 0, 1)}); break;
      case PP: if (sc.pp.size() < 6) sc.pp.push_back({(int)op.in(0, 0, kScriptTicks - 1), (int)op.in(1, 0, 6), (int)op.in(2, 0, 1)}); break;
      default: break;
    }
  }
  return sc;
}

std::string nodeName(const Tree &T, int n) {
  const TNode &d = T.n[n];
  std::string s = "node " + std::to_string(n) + " (" + kKindName[d.kind];
  if (!isLeaf(d.kind)) s += "/m" + std::to_string(d.mode);
  if (d.parent >= 0) s += ", child " + std::to_string(T.childIndex(d.parent, n)) + " of node " + std::to_string(d.parent) + " " + kKindName[T.n[d.parent].kind];
  else s += ", root";
  return s + ")";
}

// ------------------------------------------------------------------------------------------ functional reference
// Recursive evaluator of the documented pseudo-code (headers; where a pinned unit test disagrees with the header, the
// test wins: Sequence without a mode trigger returns the LAST child's result; Parallel always succeeds; IfElse with
// the needed branch missing succeeds; Repeat exhaustion succeeds; IfThen without a true condition and Switch without a
// matching case / with a failing selector fail; LoopIf returns its configured finish result).
// Written from the headers and *_test.cpp only.  Result: 1 success, 0 failure, -1 never finishes.
struct MNode { int type; int tn; std::vector<int> kids; };   // type 0 leaf, 1 series, 2 parallel; tn = tree node
struct Ref {
  const Tree &T; std::vector<int> runs; std::vector<MNode> m; int budget = 1500; int loopDepth = 0;
  bool truncated = false, ambiguous = false, ambInLoop = false;
  explicit Ref(const Tree &t) : T(t), runs(t.n.size(), 0) {}
  int mk(int type, int tn) { m.push_back(MNode{type, tn, {}}); return (int)m.size() - 1; }
  int leafResult(int n, int run) const {
    const TNode &d = T.n[n];
    switch (d.kind) {
      case K_SUCC: case K_SLEEP: return 1;
      case K_FAIL: return 0;
      case K_FUNC: return (d.mask() >> (run % 8)) & 1;
      default: return d.dtype() == 2 ? -1 : (d.mask() >> (run % 8)) & 1;
    }
  }
  int eval(int n, int &out) {
    const TNode &d = T.n[n];
    if (isLeaf(d.kind)) { out = mk(0, n); if (--budget < 0) { truncated = true; return -1; } return leafResult(n, runs[n]++); }
    int self = mk(d.kind == K_PAR ? 2 : 1, n); out = self;
    auto sub = [&](int c) { int o; int r = eval(c, o); m[self].kids.push_back(o); return r; };
    switch (d.kind) {
      case K_SEQ: { int last = 1;
        for (int c : d.ch) { int r = sub(c); if (r < 0) return -1; if ((d.mode % 3 == 2 && r) || (d.mode % 3 == 1 && !r)) return r; last = r; }
        return last; }
      case K_PAR: { bool trig = false, never = false;
        for (int c : d.ch) { int r = sub(c); if (r < 0) never = true; else if ((d.mode % 3 == 2 && r) || (d.mode % 3 == 1 && !r)) trig = true; }
        if (trig) { if (d.ch.size() > 1) { ambiguous = true; if (loopDepth > 0) ambInLoop = true; } return 1; }
        return never ? -1 : 1; }
      case K_IFELSE: { int r = sub(d.ch[0]); if (r < 0) return -1;
        int thenc = -1, elsec = -1;
        if (d.ch.size() == 3) { thenc = d.ch[1]; elsec = d.ch[2]; } else if (d.mode & 1) elsec = d.ch[1]; else thenc = d.ch[1];
        int br = r ? thenc : elsec; if (br < 0) return 1; return sub(br); }
      case K_IFTHEN:
        for (size_t i = 0; i + 1 < d.ch.size(); i += 2) { int r = sub(d.ch[i]); if (r < 0) return -1; if (r) return sub(d.ch[i + 1]); }
        return 0;
      case K_SWITCH: { int sel = switchSel(T, n, runs[d.ch[0]]); int r = sub(d.ch[0]); if (r < 0) return -1; if (!r) return 0;
        int ncase = (int)d.ch.size() - 1 - (switchHasDefault(d) ? 1 : 0);
        if (sel >= 0 && sel < ncase) return sub(d.ch[1 + sel]);
        if (switchHasDefault(d)) return sub(d.ch.back());
        return 0; }
      case K_LOOP: { ++loopDepth; int res = -1;
        for (int it = 0; it < 400; ++it) { int r = sub(d.ch[0]); if (r < 0) { --loopDepth; return -1; }
          if ((d.mode % 3 == 2 && r) || (d.mode % 3 == 1 && !r)) { res = r; break; } if (it == 399) truncated = true; }
        --loopDepth; return res; }
      case K_LOOPIF: { ++loopDepth; int res = -1;
        for (int it = 0; it < 400; ++it) { int r = sub(d.ch[0]); if (r < 0) break; if (!r) { res = (d.mode & 1) ? 0 : 1; break; }
          int r2 = sub(d.ch[1]); if (r2 < 0) break; if (it == 399) truncated = true; }
        --loopDepth; return res; }
      case K_REPEAT: { ++loopDepth; int res = 1;
        for (int it = 0; it < d.times(); ++it) { int r = sub(d.ch[0]); if (r < 0) { res = -1; break; }
          if ((d.mode % 3 == 2 && r) || (d.mode % 3 == 1 && !r)) { res = r; break; } }
        --loopDepth; return res; }
      case K_WRAPPER: { int r = sub(d.ch[0]); if (r < 0) return -1;
        switch (d.mode % 4) { case 0: return r; case 1: return !r; case 2: return 1; default: return 0; } }
      default: return sub(d.ch[0]);   // Composite
    }
  }
};

// Incremental matcher: is the real sequence of leaf starts a linear extension (prefix) of the expected series-parallel order?
struct Matcher {
  const Ref &R; std::vector<int> pos; std::vector<char> done;
  explicit Matcher(const Ref &r) : R(r), pos(r.m.size(), 0), done(r.m.size(), 0) {}
  bool complete(int x) const {
    const MNode &n = R.m[x];
    if (n.type == 0) return done[x];
    if (n.type == 1) { for (size_t i = pos[x]; i < n.kids.size(); ++i) if (!complete(n.kids[i])) return false; return true; }
    for (int k : n.kids) if (!complete(k)) return false;
    return true;
  }
  bool accept(int x, int leaf) {
    const MNode &n = R.m[x];
    if (n.type == 0) { if (!done[x] && n.tn == leaf) { done[x] = 1; return true; } return false; }
    if (n.type == 1) {
      while (pos[x] < (int)n.kids.size()) { int k = n.kids[pos[x]]; if (accept(k, leaf)) return true; if (!complete(k)) return false; ++pos[x]; }
      return false;
    }
    for (int k : n.kids) if (R.T.isDesc(leaf, R.m[k].tn)) return accept(k, leaf);
    return false;
  }
};
