TARGETS = {
    "c16_hsm_rc":   {"src": "C16/hsm.cpp", "variant": "asan", "engine": "rc",   "libs": ["flow", "base"]},
    "c16_hsm_fuzz": {"src": "C16/hsm.cpp", "variant": "asan", "engine": "fuzz", "libs": ["flow", "base"]},
}
PROP = {
    "subchecks": [
        # ASAN_OPTIONS repeats the driver's defaults except malloc_context_size (12 -> 4) and the quarantine
        # (256 -> 64 MB): librapidcheck is built without frame pointers, so ASan's fast unwinder records garbage
        # frames above the harness and the never-freed StackDepot grows by ~8 KB per case (1.2 GB after 60 000
        # cases; the first thorough run lost 3 workers to the OOM killer).  With 4 frames it stays < 200 MB.
        {"target": "c16_hsm_rc", "sub": "hsm",
         "env": {"ASAN_OPTIONS": "detect_leaks=1:detect_stack_use_after_return=0:allocator_may_return_null=1:handle_abort=0:symbolize=1:malloc_context_size=4:quarantine_size_mb=64"},
         "quick": {"cases": 25000, "max_size": 60, "workers": 8},
         "thorough": {"cases": 600000, "max_size": 80, "workers": 12}},
        {"target": "c16_hsm_fuzz", "sub": "hsm",
         "quick": {"runs": 20000, "max_len": 1000, "workers": 3, "unit_timeout": 60},
         "thorough": {"runs": 400000, "max_len": 1500, "workers": 4, "unit_timeout": 60}},
    ],
    "assumptions": [
        "run() is called with event ids 0..5; id 0 is delivered like any other event (unmodified code): it matches no specific handler/route, only the any-event handler and any-event routes, and goes to the active sub-machine first",
        "state ids are 0..5, -5 and INT_MIN (newState()/addRoute()/setInitState() of the unmodified code accept every int; -1 is the documented invalid id and never declared); handlers return -1 (decline: routes are searched), an id that is a state at that moment or 0 (transition), or any other id -- positive, or negative such as -2, -5, -7, INT_MIN -- that is not a state (then run() must return false, do nothing and leave the machine fully usable); nested machines can always start (valid initial state); a sub-machine object is attached to at most one state at a time",
        "re-definition follows the unmodified code where it is unambiguous: addEvent() again for a (state, event) replaces the handler (last one counts, specific and any-event alike), newState() of an existing id is refused and changes nothing, setInitState() again: last call counts, setSubStateMachine() on a state that has one replaces it, duplicate routes are both kept (first match wins)",
        "the call sequence is applied to the top machine only; re-entrant calls are made by a machine's callbacks on that same machine",
        "definition calls (newState/addRoute/addEvent/setInitState/setSubStateMachine) are issued in generated order, interleaved, also between two lives (stop(); define; start()), but only while the top machine is stopped; a nested machine is attached only once it can start and keeps a valid initial state",
        "left free: guard evaluations of routes registered after the route taken, lastState() between stop/restart and the next transition, nextState() outside enter/exit/route actions, the Event given to enter/exit actions of a nested machine started/stopped by its parent",
    ],
}
META = {
    "design_ref": "DESIGN.md section 4, C16",
    "technique": "model-based stateful PBT (rapidcheck) + coverage-guided fuzzing (libFuzzer) of generated machine trees and call histories against an independent reference interpreter of the statement, plus interpreter-free trace invariants, under ASan/UBSan",
    "level_text": "Generated hierarchies of up to 7 StateMachine objects, defined incrementally in generated ORDER (states, routes, handlers, setInitState and setSubStateMachine interleaved; routes to state 0 before the user's newState(0); handler targets declared later; addRoute to a not yet existing state must fail; definitions extended between two lives of the same objects) (depth <= 3; 2-5 states each, optional user-defined state 0, up to 8 routes per state with any-event wildcards and table-driven guards, per-state specific and default handlers, explicit/implicit/invalid initial state, optional actions and state-changed callback) are driven by generated start/run/stop/restart histories; in a quarter of the cases callbacks call start/stop/restart/run/newState/addRoute on their own machine. After every call the trace of guard evaluations, handler calls, exit/route/enter actions, notifications and rejected re-entrant calls, the return value and currentState/isRunning/isTerminated/lastState of every machine of the tree are compared with an independent reference interpreter; enter/exit balance at every nesting level when the top machine is stopped, exit->route action->enter order, and 'rejected re-entrant calls change nothing' are checked directly on the real trace. Exploration only: no counter-example among N generated histories.",
    "level_note": "Trusted: the reference interpreter in harness/C16/hsm.cpp (written from the statement, header comments and unit tests), the table-driven guard/handler functions shared by both sides, ASan/UBSan. Not compared: extra guard evaluations after the matching route, lastState() after stop/restart until the next transition, nextState() outside actions, the Event passed to a nested machine's enter/exit on parent-driven start/stop. Events are 1..5, state ids 0..5, depth <= 3, <= 80 calls per history.",
}
