// C16 — tbox::flow::StateMachine (hierarchical FSM) conforms to its reference semantics.
//
// A scenario is a flat op list that is applied strictly in order: definition ops (mach/state/route/handler/init/
// attach/reent) build the machine tree incrementally -- states, routes, handlers, setInitState and
// setSubStateMachine interleaved in any order the API allows, also between two lives (stop; define; start) --
// and call ops (start / run ev / stop / restart) drive the TOP machine.
// Oracle 1: an independent reference interpreter of the property statement (class Ref below) produces, per
//           top-level call, the expected trace of guard evaluations, handler calls, exit / route / enter actions,
//           state-changed notifications and rejected re-entrant calls, plus the observable answers
//           (return value, and for every machine of the tree currentState / isRunning / isTerminated /
//           lastState where documented).  Real and reference traces are compared entry by entry.
// Oracle 2: invariants checked directly on the real trace, without the interpreter: enter/exit balance per
//           machine (at most one state of a machine is "entered" at a time, none left entered when the top
//           machine has been stopped), exit -> route action -> enter order, re-entrant calls return false and
//           leave every observable of the whole tree and the trace unchanged, the event (id, extra) is passed
//           through to every callback of a transition.
// What is deliberately left free (not fixed by header comments / unit tests / the statement):
//   * guard evaluations of routes registered AFTER the route that is taken (tolerated, any number),
//   * lastState() from a stop()/restart() until the next transition of that machine,
//   * nextState() outside enter / exit / route actions,
//   * the Event handed to enter/exit actions of a NESTED machine when it is started/stopped by its parent.
#define VERIF_MAIN
#include "../common/verif.h"
#include <tbox/flow/state_machine.h>
#include <algorithm>
#include <climits>
#include <array>
#include <memory>

using namespace verif;
using tbox::flow::Event;
using tbox::flow::StateMachine;

namespace {

enum { MACH, STATE, ROUTE, HANDLER, REENT, START, RUN, STOP, RESTART, INIT, ATTACH, NOPS };

const int kMaxMach = 7, kMaxDepth = 3, kMaxRoutes = 8, kMaxReentPerHook = 3, kMaxCalls = 80, kMaxNews = 8;
const int FREE = -99;       // "not compared"
const int kBadState = 9;    // a state id that is never defined
// State ids: newState() accepts every int; -1 is the documented "invalid state" (findState(-1) never finds it), so
// it is never declared here.  Other negative ids are ordinary states for newState/addRoute/setInitState and for a
// handler that returns them; only id 0 is special (terminal).  ids are drawn from kIds (op value 0..7), handler
// targets from kTo (op value 0..9; -2 and -7 are never states of any machine).
const int kIds[] = {0, 1, 2, 3, 4, 5, -5, INT_MIN};
const int kTo[] = {0, 1, 2, 3, 4, 5, -5, INT_MIN, -2, -7};
const int kToken = 0;       // &kToken is the Event::extra of every run() call

// ------------------------------------------------------------------------------------------------ definition
// The definition is built INCREMENTALLY, in op order (struct Driver below): states, routes, handlers,
// setInitState and setSubStateMachine calls are interleaved as the scenario says, also between two lives of the
// machines (stop(); newState/addRoute/...; start()).  The reference resolves every state id at run time.
struct DRoute { int ev, to; bool guarded; uint32_t gmask; bool act; bool early0; };   // early0: target 0 was not (yet) user-defined when the route was added
struct DHandler { int ev, to; uint32_t tmask; int ver; bool to_unknown_at_reg; };   // ver: 0 for the first addEvent() of this (state, event), +1 for every re-registration
inline int hkey(const DHandler &h) { return h.ev + 8 * h.ver; }   // identity of a handler in the trace / hook table
struct DState {
  int id; bool en, ex; int sub; int dups = 0;
  std::vector<DRoute> routes; std::vector<DHandler> handlers;
};
struct DMach {
  int parent = -1, depth = 1;
  bool notify = false;
  std::vector<DState> states;   // distinct states in creation order
  int nnews = 0;                // newState() calls issued, duplicates included
  int attached_state = -1;      // state id in the parent machine (-1: not attached)
  int init_id = -1;             // -1: not set yet (the first newState() sets it)
  bool init_set = false;        // setInitState() has been called
  const DState *find(int id) const { for (auto &s : states) if (s.id == id) return &s; return nullptr; }
  DState *find(int id) { for (auto &s : states) if (s.id == id) return &s; return nullptr; }
};
enum Hook { H_ENTER, H_EXIT, H_ACT, H_GUARD, H_HANDLER, H_NOTIFY, NHOOK };
enum Call { C_START, C_STOP, C_RESTART, C_RUN, C_NEWSTATE, C_ADDROUTE, NCALL };
const char *kCallName[] = {"start", "stop", "restart", "run", "newState", "addRoute"};
struct DReent { int call, arg; };
typedef std::array<int, 4> HookKey;   // machine, hook kind, a, b
struct Def {
  std::vector<DMach> ms;
  std::map<HookKey, std::vector<DReent>> re;
  int nre = 0;
  Def() { ms.reserve(kMaxMach); }
};

// table-driven guard / handler results: pure functions of (definition, event, index of the top-level call).
// They do NOT depend on how often they were called, so that extra guard evaluations (left free) cannot
// change later behaviour.  A handler names its target by id; the id is resolved when the handler runs, so a
// state declared later is a valid target from then on; a target >= 1 that is not a state of the machine at that
// moment is refused by run() (see Ref::run).
bool gval(const DRoute &r, int ev, int step) { return (r.gmask >> ((ev * 7 + step) & 15)) & 1; }
int hval(const DHandler &h, int ev, int step, const DMach &) {
  return ((h.tmask >> ((ev * 3 + step) & 7)) & 1) ? h.to : -1;
}

// ----------------------------------------------------------------------------------------------------- trace
enum Kind { K_GUARD, K_HANDLER, K_EXIT, K_ACT, K_ENTER, K_NOTIFY, K_RE, K_SCAN };
const char *kKindName[] = {"guard", "handler", "exit", "route-action", "enter", "state-changed", "reentrant", "scan"};
struct Ent { int kind, m, a, b, ev, cur, next, last; };

std::string show(const Ent &e) {
  char buf[200];
  auto f = [](int v, char *o) { if (v == FREE) strcpy(o, "*"); else snprintf(o, 16, "%d", v); };
  char ev[16], cur[16], nx[16], la[16]; f(e.ev, ev); f(e.cur, cur); f(e.next, nx); f(e.last, la);
  if (e.kind == K_RE) snprintf(buf, sizeof buf, "[m%d reentrant %s -> %d]", e.m, kCallName[e.a], e.b);
  else snprintf(buf, sizeof buf, "[m%d %s a=%d b=%d ev=%s | cur=%s next=%s last=%s]", e.m, kKindName[e.kind], e.a, e.b, ev, cur, nx, la);
  return buf;
}
bool fieldEq(int ref, int real) { return ref == FREE || ref == real; }
bool same(const Ent &ref, const Ent &real) {
  return ref.kind == real.kind && ref.m == real.m && ref.a == real.a && ref.b == real.b && fieldEq(ref.ev, real.ev) &&
         fieldEq(ref.cur, real.cur) && fieldEq(ref.next, real.next) && fieldEq(ref.last, real.last);
}

// Compare one call's real trace with the reference trace.  Reference K_SCAN markers are not real events: they
// tell the matcher which route (index b) of state a the preceding scan of machine m took, so that real guard
// evaluations of LATER routes of the same scan can be skipped (their number is not fixed by the documentation).
std::string match(const std::vector<Ent> &ref, const std::vector<Ent> &real) {
  size_t i = 0, j = 0; bool ctx = false, skipping = false; Ent c{};
  for (;;) {
    while (i < ref.size() && ref[i].kind == K_SCAN) { c = ref[i]; ctx = true; skipping = false; ++i; }
    if (i < ref.size() && j < real.size() && same(ref[i], real[j])) { ++i; ++j; ctx = false; skipping = false; continue; }
    if (j < real.size() && ctx && c.b >= 0 && real[j].kind == K_GUARD && real[j].m == c.m && real[j].a == c.a &&
        real[j].b > c.b && real[j].ev == c.ev) { ++j; skipping = true; continue; }
    if (j < real.size() && ctx && skipping && real[j].kind == K_RE && real[j].m == c.m && real[j].b == 0) { ++j; continue; }
    break;
  }
  if (i == ref.size() && j == real.size()) return "";
  std::string msg = "trace differs at entry " + std::to_string(j) + ": expected " + (i < ref.size() ? show(ref[i]) : std::string("<end of call>")) +
                    ", got " + (j < real.size() ? show(real[j]) : std::string("<end of call>"));
  msg += "; real trace of this call:";
  for (size_t k = 0; k < real.size() && k < 24; ++k) msg += " " + show(real[k]);
  return msg;
}

// ------------------------------------------------------------------------------------------ reference interpreter
// Written from the property statement, the header comments and the unit tests (NOT from state_machine.cpp):
//  * start(): refused when running or when the initial state does not exist; enters the initial state, then
//    starts the sub-machine of that state.
//  * run(e): refused unless running.  If the current state has a running sub-machine the event goes there; the
//    answer is the sub-machine's answer unless the sub-machine is terminated afterwards, in which case it is
//    stopped and the machine handles the same event itself (likewise when its sub-machine has already been
//    terminated and stopped earlier).  Own handling: the handler registered for the event, else the default
//    handler, may pick the target (>= 0); if there is none or it returns -1, the first route in registration
//    order whose event is 0 or equal and whose guard (if any) holds.  A transition is exit action -> route
//    action -> enter action -> state-changed notification -> start the target's sub-machine and feed it the
//    same event.
//  * stop(): no-op unless running; stops the active sub-machine first (innermost first), then exits the
//    current state.
//  * a machine is terminated while its current state is 0 (defined by the user or not).
struct RM { bool running = false; int cur = -1; int last = -1; };
struct Ref {
  const Def *d; std::vector<RM> ms; std::vector<Ent> tr; int step = 0;
  // shape statistics
  int max_depth_active = 0; bool competing = false, wild_vs_spec = false, override_ = false, fallthrough = false,
      stop_active_sub = false, sub_term_continue = false, term_reached = false, reent_done = false, refused_start = false,
      self_trans = false, stale_sub_parent_handles = false, handler_default = false, user_term = false, trans_in_depth3 = false;
  int transitions = 0, free_results = 0, top_starts = 0;
  bool replaced_handler_asked = false, replaced_default_asked = false;   // the handler consulted had replaced an earlier one
  bool event0_delivered = false, event0_in_submachine = false, event0_transition = false, event0_handler_picked = false;
  bool negative_target_refused = false, negative_refused_route_matches = false, handler_picked_negative_state = false, negative_state_entered = false;
  bool unknown_handler_target = false, late_declared_handler_target = false; int last_unknown_call = -1;
  bool early_route_late0 = false;   // a route registered before newState(0, ...) led into the user-defined state 0
  // run() is documented to return "whether the state changed".  When a sub-machine changed state, thereby
  // terminated, and the machine itself then finds no transition for the same event, neither answer is fixed by
  // the documentation or a unit test: the result of that call is not compared.
  bool res_free = false;

  explicit Ref(const Def *dd) : d(dd), ms(kMaxMach) {}

  void emit(int kind, int m, int a, int b, int ev, int cur, int next, int last) {
    tr.push_back(Ent{kind, m, a, b, ev, cur, next, last});
    if (kind == K_SCAN) return;
    static const int hookOf[] = {H_GUARD, H_HANDLER, H_EXIT, H_ACT, H_ENTER, H_NOTIFY};
    HookKey key{m, hookOf[kind], kind == K_NOTIFY ? 0 : a, kind == K_NOTIFY ? 0 : b};
    auto it = d->re.find(key);
    if (it == d->re.end()) return;
    for (auto &r : it->second) { tr.push_back(Ent{K_RE, m, r.call, 0, FREE, FREE, FREE, FREE}); reent_done = true; }
  }

  bool start(int m, bool top) {
    RM &r = ms[m]; const DMach &dm = d->ms[m];
    if (r.running) { if (top) refused_start = true; return false; }
    const DState *s = dm.find(dm.init_id);
    if (!s) { if (top) refused_start = true; return false; }
    r.running = true; r.cur = s->id;
    if (s->id < 0) negative_state_entered = true;
    if (top) ++top_starts;
    if (dm.depth > max_depth_active) max_depth_active = dm.depth;
    if (s->id == 0) user_term = true;
    if (s->en) emit(K_ENTER, m, s->id, 0, top ? 0 : FREE, s->id, -1, r.last);
    if (s->sub >= 0) start(s->sub, false);
    return true;
  }

  void stop(int m, bool top) {
    RM &r = ms[m]; const DMach &dm = d->ms[m];
    if (!r.running) return;
    const DState *s = dm.find(r.cur);
    if (s && s->sub >= 0) { if (top && ms[s->sub].running) stop_active_sub = true; stop(s->sub, false); }
    if (s && s->ex) emit(K_EXIT, m, s->id, 0, top ? 0 : FREE, s->id, FREE, r.last);
    r.cur = -1; r.running = false; r.last = FREE;
  }

  bool run(int m, int e) {
    RM &r = ms[m]; const DMach &dm = d->ms[m];
    if (!r.running) return false;
    if (e == 0) { event0_delivered = true; if (dm.depth >= 2) event0_in_submachine = true; }
    const DState *s = dm.find(r.cur);
    bool sub_changed = false;
    if (s && s->sub >= 0) {
      RM &sub = ms[s->sub];
      if (sub.running) {
        bool res = run(s->sub, e);
        if (sub.cur != 0) return res;
        stop(s->sub, false);
        sub_term_continue = true;
        sub_changed = res || res_free;
      } else stale_sub_parent_handles = true;
    }
    if (!s) { res_free = sub_changed; return false; }   // implicit terminal state: nothing is registered on it
    int target = -1, ridx = -1; bool act = false;
    const DHandler *h = nullptr;
    for (auto &x : s->handlers) if (x.ev == e) h = &x;
    if (!h) for (auto &x : s->handlers) if (x.ev == 0) { h = &x; handler_default = true; }
    if (h) {
      emit(K_HANDLER, m, s->id, hkey(*h), e, s->id, FREE, r.last);
      if (h->ver > 0) { replaced_handler_asked = true; if (h->ev == 0) replaced_default_asked = true; }
      target = hval(*h, e, step, dm);
      bool route_would_match = false;
      for (auto &rt : s->routes) if ((rt.ev == 0 || rt.ev == e) && (!rt.guarded || gval(rt, e, step))) route_would_match = true;
      if (target != -1 && target != 0 && !dm.find(target)) {
        // The handler picked an id that is not a state of this machine (never declared, or not declared yet): the
        // event is refused -- run() returns false, no route is tried, no action / notification runs, the state is
        // unchanged -- and the machine stays fully usable for every later call.
        unknown_handler_target = true; last_unknown_call = step;
        if (target < 0) { negative_target_refused = true; if (route_would_match) negative_refused_route_matches = true; }
        res_free = sub_changed;
        return false;
      }
      if (target != -1 && target != 0 && h->to_unknown_at_reg) late_declared_handler_target = true;
      if (target < -1) handler_picked_negative_state = true;
      if (target != -1 && route_would_match) override_ = true;
      if (target == -1 && route_would_match) fallthrough = true;
    }
    if (target == -1) {
      int matching = 0, failed_before = 0; bool wild = false, spec = false;
      for (auto &rt : s->routes) if (rt.ev == 0 || rt.ev == e) { ++matching; (rt.ev == 0 ? wild : spec) = true; }
      for (int i = 0; i < (int)s->routes.size(); ++i) {
        const DRoute &rt = s->routes[i];
        if (rt.ev != 0 && rt.ev != e) continue;
        if (rt.guarded) {
          emit(K_GUARD, m, s->id, i, e, s->id, FREE, r.last);
          if (!gval(rt, e, step)) { ++failed_before; continue; }
        }
        ridx = i; break;
      }
      emit(K_SCAN, m, s->id, ridx, e, FREE, FREE, FREE);
      if (ridx < 0) { res_free = sub_changed; return false; }
      if (matching >= 2 && failed_before >= 1) competing = true;
      if (wild && spec) wild_vs_spec = true;
      target = s->routes[ridx].to; act = s->routes[ridx].act;
      if (s->routes[ridx].early0 && dm.find(0)) early_route_late0 = true;
    }
    int from = s->id;
    const DState *t = dm.find(target);
    if (s->ex) emit(K_EXIT, m, from, 0, e, from, target, r.last);
    r.last = from; r.cur = -1;
    if (act) emit(K_ACT, m, from, ridx, e, -1, target, from);
    r.cur = target;
    if (target < 0) negative_state_entered = true;
    ++transitions;
    if (e == 0) { event0_transition = true; if (ridx < 0) event0_handler_picked = true; }
    if (dm.depth >= 3) trans_in_depth3 = true;
    if (target == from) self_trans = true;
    if (target == 0) { term_reached = true; if (t) user_term = true; }
    if (t && t->en) emit(K_ENTER, m, target, 0, e, target, -1, from);
    if (dm.notify) emit(K_NOTIFY, m, from, target, e, target, FREE, from);
    if (t && t->sub >= 0) { start(t->sub, false); run(t->sub, e); }
    res_free = false;
    return true;
  }
};

// -------------------------------------------------------------------------------------------------- real side
struct Snap { int cur, next, last; bool running, term; };
bool operator!=(const Snap &x, const Snap &y) { return x.cur != y.cur || x.next != y.next || x.last != y.last || x.running != y.running || x.term != y.term; }

struct Real {
  const Def *d; std::vector<std::unique_ptr<StateMachine>> sm; std::vector<Ent> tr; std::string err; int step = 0;
  std::vector<int> open;        // per machine: id of the state whose enter action ran last and whose exit has not been seen
  std::vector<int> pend_enter;  // per machine: target whose enter action must be the machine's next action (after a route action)
  std::vector<int> last_kind, last_a;
  bool in_reent = false;

  explicit Real(const Def *dd) : d(dd), sm(kMaxMach), open(kMaxMach, -1), pend_enter(kMaxMach, -1),
                                 last_kind(kMaxMach, -1), last_a(kMaxMach, -1) {}

  void fail(const std::string &m) { if (err.empty()) err = m; }

  std::vector<Snap> snapAll() const {
    std::vector<Snap> v;
    for (size_t i = 0; i < sm.size(); ++i) if (sm[i]) v.push_back(Snap{sm[i]->currentState(), sm[i]->nextState(), sm[i]->lastState(), sm[i]->isRunning(), sm[i]->isTerminated()});
    return v;
  }

  // invariants that need no interpreter
  void invariants(const Ent &x) {
    const DMach &dm = d->ms[x.m];
    std::string M = "machine " + std::to_string(x.m) + ": ";
    if (x.kind == K_EXIT || x.kind == K_ACT || x.kind == K_ENTER) {
      if (pend_enter[x.m] != -1) {
        if (!(x.kind == K_ENTER && x.a == pend_enter[x.m]))
          fail(M + "route action was not followed by the enter action of target state " + std::to_string(pend_enter[x.m]) + " but by " + show(x));
        pend_enter[x.m] = -1;
      }
    }
    if (x.kind == K_ENTER) {
      if (open[x.m] != -1) { const DState *o = dm.find(open[x.m]); if (o && o->ex) fail(M + "state " + std::to_string(x.a) + " entered while state " + std::to_string(open[x.m]) + " was entered and never exited"); }
      open[x.m] = x.a;
    } else if (x.kind == K_EXIT) {
      const DState *s = dm.find(x.a);
      if (s && s->en && open[x.m] != x.a) fail(M + "exit action of state " + std::to_string(x.a) + " without a preceding enter action (entered: " + std::to_string(open[x.m]) + ")");
      if (open[x.m] != -1 && open[x.m] != x.a) { const DState *o = dm.find(open[x.m]); if (o && o->ex) fail(M + "state " + std::to_string(x.a) + " exited while state " + std::to_string(open[x.m]) + " is the one entered"); }
      open[x.m] = -1;
    } else if (x.kind == K_ACT) {
      const DState *s = dm.find(x.a);
      if (s && s->ex && !(last_kind[x.m] == K_EXIT && last_a[x.m] == x.a)) fail(M + "route action of state " + std::to_string(x.a) + " not directly preceded by that state's exit action");
      if (s && x.b < (int)s->routes.size()) { const DState *t = dm.find(s->routes[x.b].to); if (t && t->en) pend_enter[x.m] = t->id; }
    }
    if (x.kind == K_EXIT || x.kind == K_ACT || x.kind == K_ENTER) { last_kind[x.m] = x.kind; last_a[x.m] = x.a; }
  }

  void reent(int m, const DReent &r) {
    StateMachine &s = *sm[m];
    auto before = snapAll(); size_t n0 = tr.size();
    bool res = false;
    switch (r.call) {
      case C_START: res = s.start(); break;
      case C_STOP: s.stop(); break;
      case C_RESTART: res = s.restart(); break;
      case C_RUN: res = s.run(Event(1 + r.arg % 5, &kToken)); break;
      case C_NEWSTATE: res = s.newState(10 + r.arg, nullptr, nullptr); break;   // a fresh id: only "running" can refuse it
      case C_ADDROUTE: res = s.addRoute(d->ms[m].states[0].id, r.arg % 5, 0, nullptr, nullptr); break;   // valid endpoints
    }
    auto after = snapAll();
    std::string what = std::string("re-entrant ") + kCallName[r.call] + "() on machine " + std::to_string(m) + " from inside its own callback ";
    if (res) fail(what + "returned true");
    if (tr.size() != n0) fail(what + "ran callbacks: " + show(tr[n0]));
    for (size_t i = 0; i < before.size(); ++i) if (before[i] != after[i]) fail(what + "changed the observable state of the tree");
    tr.push_back(Ent{K_RE, m, r.call, res ? 1 : 0, 0, 0, 0, 0});
  }

  void hook(int kind, int m, int a, int b, const Event &e) {
    if (e.id != 0 && e.extra != &kToken) fail("machine " + std::to_string(m) + ": " + kKindName[kind] + " callback received an Event whose extra pointer is not the one given to run()");
    Ent x{kind, m, a, b, e.id, sm[m]->currentState(), sm[m]->nextState(), sm[m]->lastState()};
    tr.push_back(x);
    invariants(x);
    static const int hookOf[] = {H_GUARD, H_HANDLER, H_EXIT, H_ACT, H_ENTER, H_NOTIFY};
    auto it = d->re.find(HookKey{m, hookOf[kind], kind == K_NOTIFY ? 0 : a, kind == K_NOTIFY ? 0 : b});
    if (it != d->re.end()) for (auto &r : it->second) reent(m, r);
  }

  // ---- definition calls, issued one by one in scenario order; every return value is checked
  void newMachine(int k, bool notify) {
    sm[k].reset(new StateMachine);
    Real *R = this;
    if (notify) sm[k]->setStateChangedCallback([R, k](StateMachine::StateID f, StateMachine::StateID t, Event e) { R->hook(K_NOTIFY, k, f, t, e); });
  }
  // attempt: 0 for the first newState() of this id, 1.. for refused duplicates; it is reported by the actions so that
  // a duplicate that replaced the state's actions instead of being refused would show in the trace
  void newState(int k, int id, int flags, bool dup, int attempt) {
    Real *R = this;
    StateMachine::ActionFunc en, ex;
    if (flags & 1) en = [R, k, id, attempt](Event e) { R->hook(K_ENTER, k, id, attempt, e); };
    if (flags & 2) ex = [R, k, id, attempt](Event e) { R->hook(K_EXIT, k, id, attempt, e); };
    bool ok = sm[k]->newState(id, en, ex);
    if (ok == dup) fail("newState(" + std::to_string(id) + ") on machine " + std::to_string(k) + " returned " + (ok ? "true for a duplicate" : "false for a new state"));
  }
  void addRoute(int k, int sid, int i, const DRoute &rt, bool valid) {
    Real *R = this;
    StateMachine::GuardFunc g; StateMachine::ActionFunc a;
    if (rt.guarded) g = [R, k, sid, i, rt](Event e) { R->hook(K_GUARD, k, sid, i, e); return gval(rt, e.id, R->step); };
    if (rt.act) a = [R, k, sid, i](Event e) { R->hook(K_ACT, k, sid, i, e); };
    bool ok = sm[k]->addRoute(sid, rt.ev, rt.to, g, a);
    if (ok != valid) fail("addRoute(" + std::to_string(sid) + ", " + std::to_string(rt.ev) + ", " + std::to_string(rt.to) + ") on machine " + std::to_string(k) +
                          (ok ? " returned true although the target state does not exist" : " returned false although the source exists and the target exists or is 0"));
  }
  void addHandler(int k, int sid, const DHandler &h) {
    Real *R = this;
    if (!sm[k]->addEvent(sid, h.ev, [R, k, sid, h](Event e) -> StateMachine::StateID { R->hook(K_HANDLER, k, sid, hkey(h), e); return hval(h, e.id, R->step, R->d->ms[k]); }))
      fail("addEvent on an existing state returned false");
  }
  void setInit(int k, int id) { sm[k]->setInitState(id); }
  void attach(int k, int sid, int sub) {
    if (!sm[k]->setSubStateMachine(sid, sm[sub].get())) fail("setSubStateMachine on an existing state of a stopped machine returned false");
  }
};

// enter/exit balance of the whole tree once the top machine has been stopped
std::string balanceAtStop(const Real &R) {
  for (size_t m = 0; m < R.open.size(); ++m) {
    if (R.open[m] == -1) continue;
    const DState *o = R.d->ms[m].find(R.open[m]);
    if (o && o->ex) return "top machine stopped, but state " + std::to_string(R.open[m]) + " of machine " + std::to_string(m) + " (nesting level " + std::to_string(R.d->ms[m].depth) + ") was entered and never exited";
  }
  return "";
}

// Applies the scenario op by op: definition ops go to the shared definition AND to the real objects (only while
// the top machine is stopped: what newState()/addRoute()/... do on a running machine outside its own callbacks is
// not documented), call ops go to the real top machine and to the reference.
struct Driver {
  Def d; Ref ref; Real R;
  int skipped_running = 0, defs_between_lives = 0;
  bool route0_before_state0 = false, state0_between_lives = false, unknown_target_refused = false, init_before_state = false,
       negative_state = false, handler_replaced = false, handler_replaced_between_lives = false, dup_state = false, sub_replaced = false, init_twice = false,
       attach_between_lives = false, state_between_lives = false, route_between_lives = false;
  Driver() : ref(&d), R(&d) {}

  void newMach(const Op *op) {
    int k = (int)d.ms.size();
    DMach m;
    if (k > 0 && op) {
      int p = (int)op->in(0, 0, k - 1);
      while (d.ms[p].depth >= kMaxDepth) p = d.ms[p].parent;
      m.parent = p; m.depth = d.ms[p].depth + 1;
    } else if (k > 0) { m.parent = 0; m.depth = 2; }
    m.notify = op ? (op->in(1, 0, 1) != 0) : false;
    d.ms.push_back(m);
    R.newMachine(k, m.notify);
  }
  int mach(const Op &op) { if (d.ms.empty()) newMach(nullptr); return (int)op.in(0, 0, (int64_t)d.ms.size() - 1); }

  void def(const Op &op) {
    if (ref.ms[0].running) { ++skipped_running; return; }
    if (ref.top_starts > 0) ++defs_between_lives;
    switch (op.code) {
      case MACH: if ((int)d.ms.size() < kMaxMach) newMach(&op); break;
      case STATE: {
        int k = mach(op); DMach &m = d.ms[k];
        if (m.nnews >= kMaxNews) break;
        int id = kIds[op.in(1, 0, 7)], fl = (int)op.in(2, 0, 3);
        if (id < 0) negative_state = true;
        bool dup = m.find(id) != nullptr;
        ++m.nnews;
        R.newState(k, id, fl, dup, dup ? ++m.find(id)->dups : 0);
        if (dup) dup_state = true;
        if (dup) break;
        if (id == 0) for (auto &st : m.states) for (auto &rt : st.routes) if (rt.to == 0) route0_before_state0 = true;
        if (m.init_id == id) init_before_state = true;   // setInitState(id) came before newState(id)
        if (m.init_id == -1) m.init_id = id;   // "the first newState() is the initial state unless setInitState() said otherwise"
        m.states.push_back(DState{id, bool(fl & 1), bool(fl & 2), -1, {}, {}});
        if (ref.top_starts > 0) { state_between_lives = true; if (id == 0) state0_between_lives = true; }
        break; }
      case ROUTE: {
        int k = mach(op); DMach &m = d.ms[k];
        int n = (int)m.states.size();
        if (!n) break;
        DState &from = m.states[op.in(1, 0, n - 1)];
        if ((int)from.routes.size() >= kMaxRoutes) break;
        int t = (int)op.in(3, 0, n + 1), to = 0; bool valid = true;
        if (t >= 1 && t <= n) to = m.states[t - 1].id;
        else if (t == n + 1) { for (int id = 1; id <= 5 && valid; ++id) if (!m.find(id)) { to = id; valid = false; } }   // a state that does not exist (yet)
        DRoute rt{(int)op.in(2, 0, 4), to, op.in(4, 0, 1) != 0, (uint32_t)op.in(5, 0, 65535), op.in(6, 0, 1) != 0, to == 0 && !m.find(0)};
        R.addRoute(k, from.id, (int)from.routes.size(), rt, valid);
        if (!valid) { unknown_target_refused = true; break; }
        from.routes.push_back(rt);
        if (ref.top_starts > 0) route_between_lives = true;
        break; }
      case HANDLER: {
        int k = mach(op); DMach &m = d.ms[k];
        int n = (int)m.states.size();
        if (!n) break;
        DState &st = m.states[op.in(1, 0, n - 1)];
        DHandler h{(int)op.in(2, 0, 4), kTo[op.in(3, 0, 9)], (uint32_t)op.in(4, 0, 255), 0, false};
        h.to_unknown_at_reg = h.to != 0 && !m.find(h.to);
        // a second addEvent() for the same (state, event) REPLACES the handler (specific events and the any-event
        // slot alike): the reference keeps the last one registered
        DHandler *old = nullptr;
        for (auto &x : st.handlers) if (x.ev == h.ev) old = &x;
        if (old) h.ver = old->ver + 1;
        R.addHandler(k, st.id, h);
        if (old) { *old = h; handler_replaced = true; if (ref.top_starts > 0) handler_replaced_between_lives = true; }
        else st.handlers.push_back(h);
        break; }
      case INIT: {
        int k = mach(op); DMach &m = d.ms[k];
        int v = (int)op.in(1, 0, 8), id = v == 8 ? kBadState : kIds[v];
        // a nested machine must stay startable (a sub-machine that cannot start is outside the documented domain)
        if (k > 0 && !m.find(id)) break;
        R.setInit(k, id);
        if (m.init_set) init_twice = true;   // setInitState() again: the last call counts
        m.init_id = id; m.init_set = true;
        break; }
      case ATTACH: {
        int k = mach(op); DMach &m = d.ms[k];
        if (k == 0 || m.attached_state != -1 || !m.find(m.init_id)) break;
        DMach &p = d.ms[m.parent];
        // sel 0..5: a parent state that has no sub-machine yet; sel 6..11: any parent state -- setSubStateMachine()
        // on a state that already has one REPLACES it (the old sub-machine is detached and may be attached again later)
        int sel = (int)op.in(1, 0, 11);
        std::vector<DState*> cand;
        for (auto &st : p.states) if (sel >= 6 || st.sub < 0) cand.push_back(&st);
        if (cand.empty()) break;
        DState *at = cand[(sel % 6) % cand.size()];
        R.attach(m.parent, at->id, k);
        if (at->sub >= 0) { d.ms[at->sub].attached_state = -1; sub_replaced = true; }
        at->sub = k; m.attached_state = at->id;
        if (ref.top_starts > 0) attach_between_lives = true;
        break; }
      case REENT: {
        int mi = mach(op); const DMach &m = d.ms[mi];
        int hk = (int)op.in(1, 0, NHOOK - 1);
        std::vector<HookKey> hooks;
        for (auto &st : m.states) {
          if (hk == H_ENTER && st.en) hooks.push_back({mi, hk, st.id, 0});
          if (hk == H_EXIT && st.ex) hooks.push_back({mi, hk, st.id, 0});
          for (int i = 0; i < (int)st.routes.size(); ++i) {
            if (hk == H_ACT && st.routes[i].act) hooks.push_back({mi, hk, st.id, i});
            if (hk == H_GUARD && st.routes[i].guarded) hooks.push_back({mi, hk, st.id, i});
          }
          if (hk == H_HANDLER) for (auto &h : st.handlers) hooks.push_back({mi, hk, st.id, hkey(h)});
        }
        if (hk == H_NOTIFY && m.notify) hooks.push_back({mi, hk, 0, 0});
        if (hooks.empty()) break;
        auto &v = d.re[hooks[op.in(2, 0, (int64_t)hooks.size() - 1)]];
        if ((int)v.size() >= kMaxReentPerHook) break;
        v.push_back(DReent{(int)op.in(3, 0, NCALL - 1), (int)op.in(4, 0, 5)});
        d.nre++;
        break; }
    }
  }

  // one call on the top machine, compared with the reference; "" = ok
  std::string call(int code, int ev, int k, bool final) {
    if (d.ms.empty()) newMach(nullptr);
    R.step = ref.step = k;
    R.tr.clear(); ref.tr.clear();
    bool rres = false, xres = false; const char *name = "?";
    switch (code) {
      case START: name = "start"; rres = R.sm[0]->start(); xres = ref.start(0, true); break;
      case RUN: name = "run"; rres = R.sm[0]->run(Event(ev, &kToken)); ref.res_free = false; xres = ref.run(0, ev); if (ref.res_free) { xres = rres; ref.free_results++; } break;
      case STOP: name = "stop"; R.sm[0]->stop(); ref.stop(0, true); break;
      case RESTART: name = "restart"; rres = R.sm[0]->restart(); ref.stop(0, true); xres = ref.start(0, true); break;
    }
    std::string where = "call " + std::to_string(k) + " (" + name + (code == RUN ? " " + std::to_string(ev) : std::string()) + (final ? ", final" : "") + "): ";
    if (!R.err.empty()) return where + R.err;
    std::string e = match(ref.tr, R.tr);
    if (!e.empty()) return where + e;
    if (rres != xres) return where + "returned " + (rres ? "true" : "false") + ", reference " + (xres ? "true" : "false");
    for (int m = 0; m < (int)d.ms.size(); ++m) {
      if (R.pend_enter[m] != -1) return where + "machine " + std::to_string(m) + ": route action not followed by the enter action of state " + std::to_string(R.pend_enter[m]);
      const RM &x = ref.ms[m]; StateMachine &s = *R.sm[m];
      std::string M = where + "machine " + std::to_string(m) + " (nesting level " + std::to_string(d.ms[m].depth) + "): ";
      if (s.currentState() != x.cur) return M + "currentState()=" + std::to_string(s.currentState()) + ", reference " + std::to_string(x.cur);
      if (s.isRunning() != x.running) return M + "isRunning()=" + std::to_string(s.isRunning()) + ", reference " + std::to_string(x.running);
      bool term = x.running && x.cur == 0;
      if (s.isTerminated() != term) return M + "isTerminated()=" + std::to_string(s.isTerminated()) + ", reference " + std::to_string(term);
      if (x.last != FREE && s.lastState() != x.last) return M + "lastState()=" + std::to_string(s.lastState()) + ", reference " + std::to_string(x.last);
      if (s.nextState() != -1) return M + "nextState()=" + std::to_string(s.nextState()) + " outside any transition";
    }
    if (code == STOP) { std::string b = balanceAtStop(R); if (!b.empty()) return where + b; }
    return "";
  }
};

std::string run(const Scenario &scn, CaseInfo &info) {
  // The machines of a failing case are never destroyed: ~StateMachine asserts (abort) on a machine whose recursion
  // counter is stuck, which would replace the diagnosis of the first divergence by a bare crash.  They are parked in
  // a static list (reachable, so LeakSanitizer stays quiet).
  struct Holder {
    Driver *p; bool ok = false;
    ~Holder() { static auto *graveyard = new std::vector<Driver*>; if (ok) delete p; else graveyard->push_back(p); }   // the list itself is never destroyed either
  } holder{new Driver};
  Driver &D = *holder.p;
  Def &d = D.d; Ref &ref = D.ref;
  int ncalls = 0;
  for (auto &op : scn.ops) {
    if (op.code == START || op.code == STOP || op.code == RESTART || op.code == RUN) {
      if (ncalls >= kMaxCalls) continue;
      int ev = 0;
      if (op.code == RUN) {
        // "run N" is event N for N = 0..5; every other value is folded into 0..5.  Event id 0 is delivered like
        // any other event: it equals no specific handler / route event (those are 1..4), so only the any-event
        // handler and the any-event routes can react to it, and it goes to the active sub-machine first.
        ev = (int)op.in(0, 0, 5);
      }
      std::string e = D.call(op.code, ev, ncalls++, false);
      if (!e.empty()) return e;
    } else if (op.code >= 0 && op.code < NOPS) {
      D.def(op);
      if (!D.R.err.empty()) return "definition op before call " + std::to_string(ncalls) + ": " + D.R.err;
    }
  }
  { std::string e = D.call(STOP, 0, ncalls, true); if (!e.empty()) return e; }   // every history ends with the top machine stopped
  // liveness / depth of the final tree
  std::vector<bool> live(d.ms.size(), false);
  for (size_t k = 0; k < d.ms.size(); ++k) live[k] = k == 0 || (d.ms[k].attached_state != -1 && live[d.ms[k].parent]);
  int maxdepth = 0; for (size_t k = 0; k < d.ms.size(); ++k) if (live[k] && d.ms[k].depth > maxdepth) maxdepth = d.ms[k].depth;
  info.cls_if(maxdepth >= 2, "def_depth>=2");
  info.cls_if(maxdepth >= 3, "def_depth=3");
  info.cls_if(ref.max_depth_active >= 2, "submachine_started");
  info.cls_if(ref.max_depth_active >= 3, "depth3_started");
  info.cls_if(ref.trans_in_depth3, "transition_at_depth3");
  info.cls_if(ref.competing, "competing_routes_guard_false_then_later_taken");
  info.cls_if(ref.wild_vs_spec, "wildcard_and_specific_both_match");
  info.cls_if(ref.override_, "handler_overrides_route");
  info.cls_if(ref.fallthrough, "handler_declines_then_route");
  info.cls_if(ref.handler_default, "default_handler_used");
  info.cls_if(ref.stop_active_sub, "stop_or_restart_with_active_submachine");
  info.cls_if(ref.sub_term_continue, "sub_terminated_parent_handles_same_event");
  info.cls_if(ref.stale_sub_parent_handles, "parent_handles_after_sub_already_stopped");
  info.cls_if(ref.term_reached, "terminal_state_reached");
  info.cls_if(ref.user_term, "user_defined_state0");
  info.cls_if(ref.reent_done, "reentrant_call_made");
  info.cls_if(d.nre > 0, "reentrant_defined");
  info.cls_if(ref.refused_start, "start_refused");
  info.cls_if(ref.self_trans, "self_transition");
  info.cls_if(ref.transitions >= 5, "transitions>=5");
  info.cls_if(ref.transitions == 0, "no_transition");
  info.cls_if(ref.free_results > 0, "run_result_left_free");
  info.cls_if(D.route0_before_state0, "route_to_0_registered_before_newState0");
  info.cls_if(ref.early_route_late0, "early_route_enters_late_declared_state0");
  info.cls_if(D.unknown_target_refused, "addRoute_unknown_target_refused");
  info.cls_if(D.init_before_state, "setInitState_before_newState_of_that_state");
  info.cls_if(D.defs_between_lives > 0, "definition_changed_between_lives");
  info.cls_if(D.state_between_lives, "state_added_between_lives");
  info.cls_if(D.state0_between_lives, "state0_added_between_lives");
  info.cls_if(D.route_between_lives, "route_added_between_lives");
  info.cls_if(D.attach_between_lives, "submachine_attached_between_lives");
  info.cls_if(D.skipped_running > 0, "definition_op_skipped_while_running");
  info.cls_if(ref.top_starts >= 2, "top_started>=2_times");
  info.cls_if(D.handler_replaced, "handler_registered_again_for_same_state_event");
  info.cls_if(D.handler_replaced_between_lives, "handler_replaced_between_lives");
  info.cls_if(ref.replaced_handler_asked, "replacing_handler_consulted");
  info.cls_if(ref.replaced_default_asked, "replacing_default_handler_consulted");
  info.cls_if(D.dup_state, "duplicate_newState_refused");
  info.cls_if(D.init_twice, "setInitState_called_again");
  info.cls_if(D.sub_replaced, "submachine_replaced_by_second_setSubStateMachine");
  info.cls_if(ref.event0_delivered, "event_id_0_delivered");
  info.cls_if(ref.event0_in_submachine, "event_id_0_reached_a_submachine");
  info.cls_if(ref.event0_transition, "event_id_0_caused_a_transition");
  info.cls_if(ref.event0_handler_picked, "event_id_0_any_event_handler_picked_target");
  info.cls_if(D.negative_state, "state_with_negative_id_declared");
  info.cls_if(ref.negative_state_entered, "state_with_negative_id_entered");
  info.cls_if(ref.handler_picked_negative_state, "handler_picked_existing_negative_state");
  info.cls_if(ref.negative_target_refused, "handler_picked_negative_id_that_is_not_a_state");
  info.cls_if(ref.negative_refused_route_matches, "negative_handler_target_refused_while_a_route_matches");
  info.cls_if(ref.unknown_handler_target, "handler_picked_id_that_is_not_a_state");
  info.cls_if(ref.unknown_handler_target && ref.last_unknown_call + 1 < ncalls, "calls_after_refused_handler_target");
  info.cls_if(ref.late_declared_handler_target, "handler_target_declared_after_the_handler");
  holder.ok = true;
  info.nontrivial = ref.max_depth_active >= 2 && ref.competing && ref.override_ && ref.stop_active_sub;
  return "";
}

#ifndef VERIF_ENGINE_FUZZ
// Seed-corpus writer (maintenance aid, off unless VERIF_C16_DUMP_DIR is set): stores non-trivial generated cases
// in the byte encoding understood by verif::default_decode, for corpus/C16/hsm/.
void dumpSeed(const Scenario &s, const std::vector<int> &arity) {
  static const char *dir = getenv("VERIF_C16_DUMP_DIR");
  static int written = 0;
  if (!dir || written >= 64) return;
  std::string b;
  for (auto &op : s.ops) {
    b += (char)op.code;
    for (int k = 0; k < arity[op.code]; ++k) {
      int64_t v = op.arg(k);
      if (v >= 0 && v < 128) { b += (char)v; continue; }
      uint64_t u = v < 0 ? 0 - (uint64_t)v : (uint64_t)v; int n = 1; while (n < 8 && (u >> (8 * n))) ++n;
      b += (char)(0x80 | ((n - 1) << 4) | (v < 0 ? 1 : 0));
      for (int j = n - 1; j >= 0; --j) b += (char)(u >> (8 * j));
    }
  }
  if (b.size() > 900) return;
  char name[600]; snprintf(name, sizeof name, "%s/gen-%016llx.bin", dir, (unsigned long long)fnv1a(b));
  write_file(name, b); ++written;
}
#endif

SubDef def = [] {
  SubDef d; d.name = "hsm";
  d.op_names = {"mach", "state", "route", "handler", "reent", "start", "run", "stop", "restart", "init", "attach"};
  d.op_arity = {2, 3, 7, 5, 5, 0, 1, 0, 0, 2, 2};
  d.nt_rule = "a nested machine (depth >= 2) was started, some route scan had >= 2 routes matching the event with an earlier guard false and a later route taken, "
              "a handler picked the target although a route would also have matched, and stop/restart was issued while a sub-machine was running";
#ifndef VERIF_ENGINE_FUZZ
  std::vector<int> arity = d.op_arity;
  d.run = [arity](const Scenario &s, CaseInfo &info) { std::string e = run(s, info); if (e.empty() && info.nontrivial) dumpSeed(s, arity); return e; };
#else
  d.run = run;
#endif
#ifndef VERIF_ENGINE_FUZZ
  d.gen = [] {
    // The whole case is expanded from one rapidcheck-chosen 62-bit number by the deterministic expansion below
    // (a few hundred rapidcheck picks per case cost ~2 ms under ASan, the expansion ~10 us); shrinking is done
    // on the op list itself (see the shrink function below), which is possible because every op list is valid.
    auto expand = [](int64_t seed) -> Scenario {
      uint64_t st = (uint64_t)seed * 0x9E3779B97F4A7C15ull + 0x1234567ull;
      auto next = [&st]() -> uint64_t { uint64_t z = (st += 0x9E3779B97F4A7C15ull); z = (z ^ (z >> 30)) * 0xBF58476D1CE4E5B9ull; z = (z ^ (z >> 27)) * 0x94D049BB133111EBull; return z ^ (z >> 31); };
      auto rng = [&next](int64_t lo, int64_t hi) -> int64_t { return lo + (int64_t)(next() % (uint64_t)(hi - lo + 1)); };
      auto pick = [&rng](std::initializer_list<std::pair<int, int64_t>> w) -> int64_t {   // weighted choice of values
        int total = 0; for (auto &p : w) total += p.first;
        int64_t x = rng(0, total - 1);
        for (auto &p : w) { if (x < p.first) return p.second; x -= p.first; }
        return 0;
      };
      Scenario sc; auto &v = sc.ops;
      auto mk = [&v](int code, std::vector<int64_t> a) { Op o; o.code = code; o.a = std::move(a); v.push_back(std::move(o)); };
      int nm = (int)pick({{2, 1}, {4, 2}, {6, 3}, {4, 4}, {2, 5}, {1, 6}});
      std::vector<std::vector<int64_t>> declared(nm);   // ids declared so far, per machine, in order
      for (int k = 0; k < nm; ++k) {
        int64_t parent = k ? rng(k > 1 ? (k - 1) / 2 : 0, k - 1) : 0;   // biased towards chains: depth 3 is common
        mk(MACH, {parent, rng(0, 1)});
      }
      auto route = [&](int k, int64_t from) {
        int n = (int)declared[k].size();
        int64_t ev = pick({{3, 0}, {5, 1}, {5, 2}, {1, 3}, {1, 4}});
        int64_t to = pick({{2, 0}, {12, -1}, {1, -2}}); if (to == -1) to = rng(1, n); else if (to == -2) to = n + 1;   // n+1: a state that does not exist
        int64_t guarded = pick({{2, 0}, {3, 1}});
        int64_t gm = pick({{1, 0}, {2, 65535}, {7, -1}}); if (gm < 0) gm = rng(0, 65535);
        mk(ROUTE, {k, from < 0 ? rng(0, n - 1) : from, ev, to, guarded, gm, rng(0, 1)});
      };
      std::vector<std::vector<std::pair<int64_t, int64_t>>> hreg(nm);   // (state index, event) pairs that already have a handler
      auto handler = [&](int k, const std::vector<int64_t> &ids, int reuse_pct) {
        int n = (int)declared[k].size();
        int64_t ev = pick({{2, 0}, {4, 1}, {4, 2}, {1, 3}, {1, 4}});
        int64_t sidx = rng(0, n - 1);
        if (!hreg[k].empty() && rng(0, 99) < reuse_pct) { auto &pr = hreg[k][rng(0, (int64_t)hreg[k].size() - 1)]; sidx = pr.first; ev = pr.second; }   // register again: replaces the handler
        hreg[k].push_back({sidx, ev});
        int64_t to = pick({{1, 0}, {14, -1}, {2, -2}, {1, -3}, {1, -4}}); if (to == -1) to = ids[rng(0, (int64_t)ids.size() - 1)]; else if (to == -2) to = rng(1, 5); else if (to == -3) to = rng(8, 9); else if (to == -4) to = rng(6, 7);   // a state (possibly declared later, possibly with a negative id), an id that is never one, -2 / -7
        int64_t tm = pick({{2, 0}, {1, 255}, {7, -1}}); if (tm < 0) tm = rng(0, 255);
        mk(HANDLER, {k, sidx, ev, to, tm});
      };
      for (int k = 0; k < nm; ++k) {
        int ns = (int)rng(2, 5);
        bool term = rng(0, 2) == 0;   // user-defined state 0
        int termpos = (int)rng(0, ns - 1);
        int64_t base = rng(0, 4);
        std::vector<int64_t> ids;
        for (int i = 0; i < ns; ++i) ids.push_back((term && i == termpos) ? 0 : 1 + (base + i) % 5);
        if (rng(0, 8) == 0) { int pos = (int)rng(0, ns - 1); if (ids[pos] != 0) ids[pos] = rng(6, 7); }   // op values 6, 7 = state ids -5, INT_MIN
        // items: 0..ns-1 = states, 100 = route, 101 = handler, 102 = setInitState, 103 = attach to the parent, 104 = duplicate state
        std::vector<int> items;
        int nr = (int)rng(2 * ns, 4 * ns), nh = (int)rng(0, ns + 1);
        bool classic = rng(0, 2) == 0;   // all states first, then routes and handlers (the order of every unit test)
        for (int i = 1; i < ns; ++i) items.push_back(i);
        size_t nstates_first = items.size();
        for (int i = 0; i < nr; ++i) items.push_back(100);
        for (int i = 0; i < nh; ++i) items.push_back(101);
        if (rng(0, 2) == 0) items.push_back(102);
        if (k > 0 && rng(0, 19) != 0) items.push_back(103);
        if (rng(0, 19) == 0) items.push_back(104);
        auto shuffle = [&](size_t lo) { for (size_t i = items.size(); i > lo + 1; --i) std::swap(items[i - 1], items[lo + (size_t)rng(0, (int64_t)(i - 1 - lo))]); };
        shuffle(classic ? nstates_first : 0);
        if (k == 0 && rng(0, 5) == 0) mk(INIT, {k, rng(0, 11) == 0 ? 8 : ids[rng(0, ns - 1)]});   // setInitState() before any newState()
        mk(STATE, {k, ids[0], pick({{5, 3}, {1, 0}, {1, 1}, {1, 2}})}); declared[k].push_back(ids[0]);
        for (int it : items) {
          int n = (int)declared[k].size();
          if (it < 100) { mk(STATE, {k, ids[it], pick({{6, 3}, {1, 0}, {1, 1}, {1, 2}})}); declared[k].push_back(ids[it]); }
          else if (it == 100) route(k, -1);
          else if (it == 101) handler(k, ids, 25);
          else if (it == 102) mk(INIT, {k, k == 0 ? ids[rng(0, ns - 1)] : declared[k][rng(0, n - 1)]});
          else if (it == 103) mk(ATTACH, {k, rng(0, 6) == 0 ? rng(6, 11) : rng(0, 5)});   // 1 in 7: any parent state, replacing the sub-machine it may have
          else mk(STATE, {k, declared[k][rng(0, n - 1)], rng(0, 3)});
        }
      }
      auto reents = [&](int n) { for (int i = 0; i < n; ++i) mk(REENT, {rng(0, nm - 1), rng(0, NHOOK - 1), rng(0, 11), rng(0, NCALL - 1), rng(0, 5)}); };
      if (rng(0, 3) == 0) reents((int)rng(1, 6));   // a quarter of the cases: re-entrant calls from inside callbacks
      int lives = (int)pick({{5, 1}, {4, 2}, {1, 3}});
      for (int life = 0; life < lives; ++life) {
        if (life > 0) {   // the definition changes between two lives of the same objects
          mk(STOP, {});
          int ne = (int)rng(1, 6);
          for (int i = 0; i < ne; ++i) {
            int k = (int)rng(0, nm - 1);
            int n = (int)declared[k].size();
            std::vector<int64_t> all = declared[k];
            switch (pick({{4, 0}, {4, 1}, {4, 2}, {1, 3}, {1, 4}, {1, 5}})) {
              case 0: {   // a new state (state 0 preferred when the machine has none), usually with a route out of it
                std::vector<int64_t> missing;
                for (int64_t id = 0; id <= 5; ++id) { bool have = false; for (auto x : declared[k]) if (x == id) have = true; if (!have) missing.push_back(id); }
                if (rng(0, 7) == 0) for (int64_t id = 6; id <= 7; ++id) { bool have = false; for (auto x : declared[k]) if (x == id) have = true; if (!have) { missing.clear(); missing.push_back(id); } }
                if (missing.empty()) break;
                int64_t id = (missing[0] == 0 && rng(0, 1)) ? 0 : missing[rng(0, (int64_t)missing.size() - 1)];
                mk(STATE, {k, id, pick({{6, 3}, {1, 0}, {1, 1}, {1, 2}})}); declared[k].push_back(id);
                if (rng(0, 3) != 0) route(k, n);
                if (rng(0, 1)) route(k, -1);
                break; }
              case 1: route(k, -1); break;
              case 2: handler(k, all, 60); break;
              case 3: mk(INIT, {k, declared[k][rng(0, n - 1)]}); break;
              case 4: mk(ATTACH, {k, rng(0, 11)}); break;
              default: reents(1); break;
            }
          }
        }
        if (life > 0 || rng(0, 9) != 0) mk(START, {});
        int nc = (int)pick({{1, 2}, {3, 8}, {4, 16}, {2, 30}});
        nc = (int)rng(nc / 2, nc);
        for (int i = 0; i < nc; ++i) {
          switch (pick({{30, RUN}, {2, STOP}, {3, RESTART}, {2, START}})) {
            case RUN: mk(RUN, {pick({{2, 0}, {6, 1}, {6, 2}, {2, 3}, {1, 4}, {1, 5}})}); break;
            case STOP: mk(STOP, {}); break;
            case RESTART: mk(RESTART, {}); break;
            default: mk(START, {}); break;
          }
        }
      }
      return sc;
    };
    auto base = rc::gen::map(rc::gen::noShrink(range(0, (int64_t)1 << 62)), expand);
    // shrinking: drop chunks of ops / single ops, then zero single arguments
    return rc::gen::shrink(base, [](const Scenario &s) {
      std::vector<Scenario> out;
      size_t n = s.ops.size();
      for (size_t chunk = n / 2; chunk >= 1; chunk /= 2) {
        for (size_t at = 0; at + chunk <= n; at += chunk) {
          Scenario t; t.ops.reserve(n - chunk);
          for (size_t i = 0; i < n; ++i) if (i < at || i >= at + chunk) t.ops.push_back(s.ops[i]);
          out.push_back(std::move(t));
        }
        if (chunk == 1) break;
      }
      for (size_t i = 0; i < n; ++i)
        for (size_t k = 0; k < s.ops[i].a.size(); ++k)
          if (s.ops[i].a[k] != 0) { Scenario t = s; t.ops[i].a[k] = 0; out.push_back(std::move(t)); }
      return rc::seq::fromContainer(std::move(out));
    });
  };
#endif
  return d;
}();
VERIF_REGISTER(&def);
}  // namespace
