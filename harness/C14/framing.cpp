// C14 (a) — framing is total: arbitrary / hostile bytes fed to the three jsonrpc framings are reported through
// the return value of onRecvData(), never by an exception, crash or out-of-bounds access, and how the transport
// happened to segment the bytes does not change what is decoded.
//
// Subs (one op language, see kOpNames):
//   framing_header / framing_raw / framing_packet   libFuzzer targets (bytes -> stream + cuts, see decodeBytes)
//   framing_extreme                                  rapidcheck: deterministic extreme shapes (deep nesting, MiB
//                                                    strings, length fields at the 32-bit edges, many small frames);
//                                                    also the sub that replays text regression files of all four.
// Oracle:
//   Every input can be run with TRAFFIC LOGGING on (op `log 1`: Proto::setLogEnable(true) + label + a registered log channel that
//   swallows the lines; without a channel the log front end never formats the text): the logged path reads the frame text too.
//   1. totality: no exception (the common wrapper reports an escaping one), no crash / sanitizer report
//      (every call gets an exact-size heap copy of the readable bytes), ret <= size, termination;
//   2. resumability: unsegmented feed, the generated segmentation and (streams <= 1 KiB) byte-by-byte feeding
//      produce the same callback sequence, the same final state (waiting / error) and the same unconsumed tail;
//   4. statelessness: when the case consists of several successive streams (op `newstream`: the connection is dropped, possibly in
//      the middle of a frame, and the SAME proto object is used for the next one, receive buffer from offset 0), every stream
//      decodes exactly as it does on a fresh proto object (callbacks, final state, unconsumed tail);
//   3. header-stream only: frame boundaries agree with an independent reading of the documented layout
//      magic(2) + length(4, big endian) + text (number of frames consumed, waiting vs. error, unconsumed tail).
#define VERIF_MAIN
#include "common.h"

using namespace verif;
using namespace c14;

namespace {

enum { PROTO, RAW, REP, LIT, HDR, HDRAUTO, NEST, UNNEST, CUT, ENDFRAME, LOG, NEWSTREAM, NOPS };
const char *const kLits[] = {
  /*0*/ "{\"jsonrpc\":\"2.0\",\"method\":\"m\",\"params\":",
  /*1*/ "}",
  /*2*/ "{\"jsonrpc\":\"2.0\",\"id\":1,\"result\":",
  /*3*/ "\"",
  /*4*/ "{\"jsonrpc\":\"2.0\",\"method\":\"",
  /*5*/ "\",\"id\":7}",
  /*6*/ "{\"jsonrpc\":\"2.0\",\"method\":\"ping\",\"id\":3}",
  /*7*/ ",",
  /*8*/ "{\"jsonrpc\":\"2.0\",\"id\":3,\"result\":{\"k\":\"]}\\\"[{\"}}",
  /*9*/ "{\"jsonrpc\":\"2.0\",\"id\":4,\"error\":{\"code\":-5}}",
  /*10*/ "[",
  /*11*/ "]",
  /*12*/ "\n",
  /*13*/ "1",
  /*14*/ "{\"jsonrpc\":\"2.0\",\"method\":\"n\"}",
  /*15*/ "{\"jsonrpc\":\"2.0\",\"id\":4,\"error\":{\"code\":-5,\"data\":",
  /*16*/ "}}",
  /*17*/ "{\"jsonrpc\":\"2.0\",\"id\":4,\"error\":",
  /*18*/ "{\"jsonrpc\":\"2.0\",\"result\":1,\"id\":",
  /*19*/ "{\"jsonrpc\":\"2.0\",\"id\":5,\"method\":",
  /*20*/ "{\"jsonrpc\":\"2.0\",\"id\":6,\"error\":{\"data\":",
  /*21*/ ",\"code\":-7}}",
};
const int kNLits = sizeof kLits / sizeof kLits[0];
const char *const kOpen[] = {"[", "{\"a\":"};
const char *const kClose[] = {"]", "}"};
const size_t kMaxStream = 12u << 20;

struct Part { std::string stream; std::vector<size_t> cuts; };
// parts: the successive streams (connections) of the case; `stream` / `cuts` are the one under construction
struct Built { int proto; std::string stream; std::vector<size_t> cuts; std::vector<Part> parts; bool deep = false, big = false, edge_len = false, log = false; };

Built build(const Scenario &s, int dflt_proto) {
  Built b; b.proto = dflt_proto;
  std::vector<int64_t> cutreq;
  long auto_at = -1; int64_t auto_delta = 0;   // position of a pending self-measuring header
  auto closeAuto = [&]() {
    if (auto_at < 0) return;
    uint32_t len = (uint32_t)((int64_t)(b.stream.size() - (size_t)auto_at - 6) + auto_delta);
    b.stream.replace((size_t)auto_at, 6, header(kMagic, len));
    auto_at = -1;
  };
  size_t total = 0;   // bytes of the finished parts
  auto room = [&](size_t n) { return total + b.stream.size() + n <= kMaxStream; };
  auto finishPart = [&]() {
    closeAuto();
    for (auto v : cutreq) { Op o; o.a = {v}; size_t c = (size_t)o.in(0, 0, (int64_t)b.stream.size()); if (c > 0 && c < b.stream.size()) b.cuts.push_back(c); }
    std::sort(b.cuts.begin(), b.cuts.end());
    b.cuts.erase(std::unique(b.cuts.begin(), b.cuts.end()), b.cuts.end());
    total += b.stream.size();
    b.parts.push_back(Part{std::move(b.stream), std::move(b.cuts)});
    b.stream.clear(); b.cuts.clear(); cutreq.clear();
  };
  for (auto &op : s.ops) {
    switch (op.code) {
      case PROTO: b.proto = (int)op.in(0, 0, NPROTO - 1); break;
      case RAW: if (room(op.a.size())) for (auto v : op.a) b.stream += (char)(uint8_t)v; break;
      case REP: { size_t n = (size_t)op.in(1, 0, 4 << 20); if (room(n)) b.stream.append(n, (char)(uint8_t)op.arg(0)); if (n >= 65536) b.big = true; break; }
      case LIT: { const char *l = kLits[op.in(0, 0, kNLits - 1)]; if (room(strlen(l))) b.stream += l; break; }
      case HDR: closeAuto(); b.stream += header(op.in(0, 0, 1) ? (uint16_t)(kMagic ^ 0x0100) : kMagic, (uint32_t)(uint64_t)op.arg(1));
                if ((uint32_t)(uint64_t)op.arg(1) >= 0x7fffffffu) b.edge_len = true; break;
      case HDRAUTO: closeAuto(); auto_at = (long)b.stream.size(); auto_delta = op.arg(0); if (auto_delta < -8 || auto_delta > 8) auto_delta %= 8; b.stream += std::string(6, 0); break;
      case ENDFRAME: closeAuto(); break;
      case NEST: case UNNEST: {
        size_t n = (size_t)op.in(0, 0, 400000); const char *t = (op.code == NEST ? kOpen : kClose)[op.in(1, 0, 1)];
        size_t tl = strlen(t);
        if (!room(n * tl)) break;
        b.stream.reserve(b.stream.size() + n * tl);
        for (size_t i = 0; i < n; ++i) b.stream.append(t, tl);
        if (n >= 2000) b.deep = true;
        break; }
      case CUT: cutreq.push_back(op.arg(0)); break;
      case LOG: b.log = op.in(0, 0, 1) != 0; break;
      case NEWSTREAM: if (b.parts.size() < 3) finishPart(); break;   // the connection is dropped here; what follows arrives on a new one, same proto object   // traffic logging on: setLogEnable(true) + a registered log channel
      default: break;
    }
  }
  finishPart();
  return b;
}

struct RunOut { FeedResult fr; std::vector<Ev> evs; };
RunOut runOnce(int proto, const std::string &stream, const std::vector<size_t> &cuts, bool shallow, bool log, uint64_t *log_lines = nullptr) {
  RunOut o;
  auto p = mkProto(proto);
  std::unique_ptr<TrafficLog> tl;
  if (log) { tl.reset(new TrafficLog); TrafficLog::enable(*p, "c14-peer"); }
  Recorder rec; rec.shallow = shallow; rec.attach(*p);
  p->setSendCallback([](const void *, size_t) {});
  o.fr = feed(*p, proto, stream, cuts);
  o.evs = std::move(rec.evs);
  if (tl && log_lines) *log_lines += tl->lines;
  return o;
}

std::string compareRuns(const char *what, const RunOut &a, const RunOut &b, bool shallow) {
  std::string d = diffEvs(a.evs, b.evs, shallow);
  if (!d.empty()) return std::string(what) + " decodes differently from the unsegmented stream: " + d;
  if (a.fr.status != b.fr.status)
    return std::string(what) + ": final state differs from the unsegmented stream (unsegmented " + (a.fr.status ? "error return " + std::to_string(a.fr.neg_ret) : std::string("waiting")) +
           ", segmented " + (b.fr.status ? "error return " + std::to_string(b.fr.neg_ret) : std::string("waiting")) + ")";
  if (a.fr.status == 0 && a.fr.leftover != b.fr.leftover)   // after an error return the connection is dropped: the tail is meaningless
    return std::string(what) + ": " + std::to_string(b.fr.leftover) + " unconsumed bytes, unsegmented " + std::to_string(a.fr.leftover);
  return "";
}

// Independent reading of the header-stream layout.  Returns frames consumed / final state / unconsumed tail.
struct RefHdr { size_t frames = 0; int status = 0; size_t leftover = 0; };
RefHdr refHeader(const std::string &s) {
  RefHdr r; size_t at = 0;
  while (s.size() - at >= 6) {
    const unsigned char *p = (const unsigned char *)s.data() + at;
    uint16_t magic = (uint16_t)(p[0] << 8 | p[1]);
    uint64_t len = ((uint64_t)p[2] << 24) | ((uint64_t)p[3] << 16) | ((uint64_t)p[4] << 8) | p[5];
    if (magic != kMagic) { r.status = -1; break; }
    if (len + 6 > s.size() - at) break;   // incomplete: wait
    if (!Json::accept(s.begin() + (long)at + 6, s.begin() + (long)(at + 6 + len))) { r.status = -1; break; }
    at += 6 + (size_t)len; ++r.frames;
  }
  r.leftover = s.size() - at;
  return r;
}

std::string runFraming(const Scenario &s, CaseInfo &info, int dflt_proto) {
  Built bb0 = build(s, dflt_proto);
  uint64_t log_lines = 0;
  bool any_frame = false, frames2 = false, fired = false, errret = false, waiting = false, segmented = false;
  std::vector<RunOut> fresh;   // per stream: decode by a fresh proto object with the stream's own segmentation
  for (size_t pi = 0; pi < bb0.parts.size(); ++pi) {
  struct { int proto; const std::string &stream; const std::vector<size_t> &cuts; bool deep, log; } b{bb0.proto, bb0.parts[pi].stream, bb0.parts[pi].cuts, bb0.deep, bb0.log};
  bool shallow = b.deep || b.stream.size() > (256u << 10);
  RunOut whole = runOnce(b.proto, b.stream, b.proto == P_PACKET ? b.cuts : std::vector<size_t>(), shallow, b.log, &log_lines);
  if (!whole.fr.err.empty()) return std::string(kProtoName[b.proto]) + ": " + whole.fr.err;
  if (b.proto != P_PACKET) {
    if (!b.cuts.empty()) {
      RunOut seg = runOnce(b.proto, b.stream, b.cuts, shallow, b.log);
      if (!seg.fr.err.empty()) return std::string(kProtoName[b.proto]) + " (segmented): " + seg.fr.err;
      std::string d = compareRuns("the generated segmentation", whole, seg, shallow);
      if (!d.empty()) return std::string(kProtoName[b.proto]) + ": " + d;
      fresh.push_back(std::move(seg));
    } else fresh.push_back(whole);
    if (b.stream.size() >= 2 && b.stream.size() <= 1024) {
      RunOut bb = runOnce(b.proto, b.stream, everyByte(b.stream.size()), shallow, b.log);
      if (!bb.fr.err.empty()) return std::string(kProtoName[b.proto]) + " (byte by byte): " + bb.fr.err;
      std::string d = compareRuns("byte-by-byte delivery", whole, bb, shallow);
      if (!d.empty()) return std::string(kProtoName[b.proto]) + ": " + d;
    }
  }
  else fresh.push_back(whole);
  if (b.proto == P_HEADER) {
    RefHdr r = refHeader(b.stream);
    char buf[300];
    if (r.frames != whole.fr.frames || (r.status != 0) != (whole.fr.status != 0) || (r.status == 0 && r.leftover != whole.fr.leftover)) {
      snprintf(buf, sizeof buf, "header-stream: documented layout gives %zu complete frame(s), then %s with %zu byte(s) unconsumed; onRecvData consumed %zu frame(s), then %s (ret %zd) with %zu byte(s) unconsumed",
               r.frames, r.status ? "an error" : "waiting", r.leftover, whole.fr.frames, whole.fr.status ? "an error" : "waiting", whole.fr.neg_ret, whole.fr.leftover);
      return buf;
    }
  }
  any_frame |= whole.fr.frames >= 1; frames2 |= whole.fr.frames >= 2; fired |= !whole.evs.empty(); errret |= whole.fr.status != 0;
  waiting |= whole.fr.status == 0 && whole.fr.leftover > 0; segmented |= !b.cuts.empty();
  }   // per stream
  const Built &b = bb0;
  // ---- statelessness across streams: ONE proto object decodes the streams one after the other (a dropped connection, then a new one:
  // the receive buffer starts from offset 0 again); every stream must decode exactly as it does on a fresh proto object
  bool abandoned_then_complete = false;
  if (b.parts.size() >= 2) {
    bool shallow = b.deep;
    for (auto &pt : b.parts) if (pt.stream.size() > (256u << 10)) shallow = true;
    auto p = mkProto(b.proto);
    std::unique_ptr<TrafficLog> tl;
    if (b.log) { tl.reset(new TrafficLog); TrafficLog::enable(*p, "c14-peer"); }
    Recorder rec; rec.shallow = shallow; rec.attach(*p);
    p->setSendCallback([](const void *, size_t) {});
    bool prev_abandoned = false;
    for (size_t pi = 0; pi < b.parts.size(); ++pi) {
      rec.evs.clear();
      RunOut o; o.fr = feed(*p, b.proto, b.parts[pi].stream, b.parts[pi].cuts); o.evs = rec.evs;
      std::string what = "stream " + std::to_string(pi + 1) + " of " + std::to_string(b.parts.size()) + " decoded by a proto object that had decoded the earlier stream(s)";
      if (!o.fr.err.empty()) return std::string(kProtoName[b.proto]) + ", " + what + ": " + o.fr.err;
      std::string d = compareRuns(what.c_str(), fresh[pi], o, shallow);
      if (!d.empty()) { size_t k = d.find("the unsegmented stream"); while (k != std::string::npos) { d.replace(k, 22, "a fresh proto object"); k = d.find("the unsegmented stream"); }
                        k = d.find(", unsegmented "); if (k != std::string::npos) d.replace(k, 14, ", fresh object "); k = d.find("(unsegmented "); if (k != std::string::npos) d.replace(k, 13, "(fresh object ");
                        return std::string(kProtoName[b.proto]) + ": " + d; }
      if (prev_abandoned && fresh[pi].fr.frames >= 1) abandoned_then_complete = true;
      prev_abandoned = b.proto != P_PACKET && fresh[pi].fr.status == 0 && fresh[pi].fr.leftover > 0;
    }
  }
  info.cls(kProtoName[b.proto]);
  info.cls_if(any_frame, "complete_frame>=1");
  info.cls_if(frames2, "complete_frame>=2");
  info.cls_if(fired, "callback_fired");
  info.cls_if(errret, "error_return");
  info.cls_if(waiting, "waiting_with_partial_frame");
  info.cls_if(segmented, "segmented");
  info.cls_if(b.parts.size() >= 2, "proto_object_reused_for_a_second_stream");
  info.cls_if(abandoned_then_complete, "stream_with_complete_frames_after_an_abandoned_partial_frame");
  info.cls_if(b.deep, "deep_nesting>=2000");
  info.cls_if(b.big, "run>=64KiB");
  info.cls_if(b.edge_len, "length_field>=2^31-1");
  info.cls_if(b.log, "traffic_logging_on");
  info.cls_if(b.log && log_lines > 0, "traffic_line_logged");
  info.nontrivial = any_frame;
  return "";
}

// libFuzzer bytes -> scenario: the stream is the front of the input; the LAST byte is the number of cuts n (mod 8),
// the 2n bytes before it are big-endian cut positions; bits 3-4 of the last byte == 01 switch traffic logging on; bit 5 turns
// the first cut into the end of a first stream (the rest is a second stream for the same proto object).
// Seed files are therefore "stream + trailer".
Scenario decodeBytes(int proto, const uint8_t *d, size_t n) {
  Scenario s;
  { Op o; o.code = PROTO; o.a = {proto}; s.ops.push_back(o); }
  size_t ncut = 0, body = n;
  bool log = false;
  if (n >= 1) { ncut = d[n - 1] % 8; log = ((d[n - 1] >> 3) & 3) == 1; body = n - 1; while (ncut * 2 > body) --ncut; body -= ncut * 2; }
  if (log) { Op o; o.code = LOG; o.a = {1}; s.ops.push_back(o); }   // bits 3-4 of the last byte == 01: traffic logging on (a quarter of the byte values)
  // bit 5 of the last byte: the first cut position does not segment the stream, it ENDS it: the bytes behind it arrive as a new
  // stream (new connection) on the same proto object; the remaining cut values segment both streams
  bool reuse = n >= 1 && (d[n - 1] & 0x20) && ncut >= 1 && body >= 2;
  size_t split = reuse ? 1 + (size_t)(d[body] << 8 | d[body + 1]) % (body - 1) : body;
  auto emit = [&](size_t from, size_t to) {
    if (to > from) { Op o; o.code = RAW; o.a.assign(d + from, d + to); s.ops.push_back(std::move(o)); }
    for (size_t k = reuse ? 1 : 0; k < ncut; ++k) { Op o; o.code = CUT; o.a = {(int64_t)(d[body + 2 * k] << 8 | d[body + 2 * k + 1])}; s.ops.push_back(o); }
  };
  emit(0, split);
  if (reuse) { Op o; o.code = NEWSTREAM; s.ops.push_back(o); emit(split, body); }
  return s;
}

const std::vector<const char*> kOpNames = {"proto", "raw", "rep", "lit", "hdr", "hdrauto", "nest", "unnest", "cut", "endframe", "log", "newstream"};
const std::vector<int> kArity = {1, 8, 2, 1, 2, 1, 2, 2, 1, 0, 1, 0};

SubDef mkFuzzSub(const char *name, int proto) {
  SubDef d; d.name = name; d.op_names = kOpNames; d.op_arity = kArity;
  d.nt_rule = "the input contains at least one complete frame (onRecvData returned > 0 at least once)";
  d.run = [proto](const Scenario &s, CaseInfo &i) { return runFraming(s, i, proto); };
  d.decode = [proto](const uint8_t *p, size_t n) { return decodeBytes(proto, p, n); };
#ifndef VERIF_ENGINE_FUZZ
  d.gen = [proto] { return rc::gen::just(Scenario()); };   // text replays only
#endif
  return d;
}
SubDef subHeader = mkFuzzSub("framing_header", P_HEADER);
SubDef subRaw = mkFuzzSub("framing_raw", P_RAW);
SubDef subPacket = mkFuzzSub("framing_packet", P_PACKET);
VERIF_REGISTER(&subHeader);
VERIF_REGISTER(&subRaw);
VERIF_REGISTER(&subPacket);

#ifndef VERIF_ENGINE_FUZZ
Scenario expandExtreme(uint64_t seed) {
  Rng r(seed);
  Scenario sc; auto &v = sc.ops;
  auto mk = [&v](int code, std::vector<int64_t> a) { Op o; o.code = code; o.a = std::move(a); v.push_back(std::move(o)); };
  int proto = (int)r.rng(0, 2);
  mk(PROTO, {proto});
  if (r.chance(1, 3)) mk(LOG, {1});
  int shape = (int)r.pick({{8, 0}, {3, 1}, {4, 2}, {2, 3}, {2, 4}, {4, 5}});
  bool hdr = proto == P_HEADER && shape != 2;
  int64_t delta = r.pick({{8, 0}, {1, 1}, {1, -1}});
  if (hdr) mk(HDRAUTO, {delta});
  switch (shape) {
    case 0: {   // deep nesting
      int64_t depth = r.pick({{1, 10}, {2, 1000}, {2, 20000}, {2, 100000}, {3, 200000}, {1, 300000}}) + r.rng(0, 3);
      int kind = (int)r.pick({{5, 0}, {1, 1}});
      // bare (batch path) | as params | as result | as error.data | as error.data before code | as the error value itself | as id | as method
      int wrap = (int)r.pick({{4, 0}, {2, 1}, {2, 2}, {2, 3}, {1, 4}, {2, 5}, {1, 6}, {1, 7}});
      static const int open_lit[] = {-1, 0, 2, 15, 20, 17, 18, 19};
      static const int close_lit[] = {-1, 1, 1, 16, 21, 1, 1, 1};
      if (wrap) mk(LIT, {open_lit[wrap]});
      mk(NEST, {depth, kind});
      int inner = (int)r.pick({{3, -1}, {3, 6}, {1, 13}, {1, 9}});
      if (inner >= 0 && kind == 0) mk(LIT, {inner}); else if (kind == 1) mk(LIT, {13});
      int64_t close = r.pick({{6, depth}, {1, depth - 1}, {1, depth + 1}, {1, 0}, {1, depth / 2}});
      mk(UNNEST, {close, kind});
      if (wrap) mk(LIT, {close_lit[wrap]});
      break; }
    case 1: {   // one huge string
      int64_t n = r.pick({{2, 65536}, {3, 1 << 20}, {1, (1 << 20) + 1}, {1, 2 << 20}});
      int64_t byte = r.pick({{3, 'x'}, {2, '['}, {2, '{'}, {2, '\\'}, {1, '}'}, {1, ' '}});
      int where = (int)r.rng(0, 1);
      if (where == 0) { mk(LIT, {4}); mk(REP, {byte, n}); mk(LIT, {5}); }
      else { mk(LIT, {0}); mk(LIT, {3}); mk(REP, {byte, n}); if (r.chance(5, 6)) mk(LIT, {3}); mk(LIT, {1}); }
      break; }
    case 2: {   // explicit length fields at the edges (meaningful for the header-stream proto, noise for the others)
      int nf = (int)r.rng(1, 3);
      for (int i = 0; i < nf; ++i) {
        if (r.chance(1, 3)) { mk(HDRAUTO, {r.pick({{2, 0}, {2, 1}, {2, -1}, {1, 2}, {1, -2}})}); mk(LIT, {r.rng(6, 9)}); mk(ENDFRAME, {}); continue; }
        int64_t len = r.pick({{1, 0}, {1, 1}, {1, 2}, {1, 0x7fffffff}, {1, 0x80000000ll}, {1, 0x80000001ll}, {1, 0xfffffff9ll}, {1, 0xfffffffall}, {1, 0xfffffffbll},
                              {1, 0xfffffffcll}, {1, 0xfffffffdll}, {1, 0xfffffffell}, {2, 0xffffffffll}, {1, 0x00010000}});
        mk(HDR, {r.pick({{9, 0}, {1, 1}}), len});
        int body = (int)r.rng(0, 3);
        for (int k = 0; k < body; ++k) mk(LIT, {r.rng(6, 9)});
      }
      break; }
    case 3: {   // many small frames in one segment
      int n = (int)r.pick({{1, 50}, {2, 400}, {1, 1000}});
      for (int i = 0; i < n; ++i) { if (hdr && i) mk(HDRAUTO, {0}); mk(LIT, {r.pick({{2, 6}, {1, 8}, {1, 9}, {1, 14}})}); if (proto == P_RAW && r.chance(1, 4)) mk(LIT, {12}); }
      break; }
    case 5: {   // one proto object, 2-3 successive streams; an earlier stream may end in an abandoned partial frame
      int ns = (int)r.pick({{3, 2}, {1, 3}});
      for (int k = 0; k < ns; ++k) {
        if (k) { if (hdr) mk(ENDFRAME, {}); mk(NEWSTREAM, {}); if (hdr) mk(HDRAUTO, {0}); }
        bool last = k == ns - 1;
        int nmsg = (int)r.pick({{2, 0}, {3, 1}, {2, 2}, {1, 4}});
        if (last && nmsg == 0) nmsg = 1;
        for (int i = 0; i < nmsg; ++i) { if (hdr && i) { mk(ENDFRAME, {}); mk(HDRAUTO, {0}); } mk(LIT, {r.pick({{3, 6}, {1, 14}, {1, 9}, {1, 8}})}); if (proto == P_RAW && r.chance(1, 4)) mk(LIT, {12}); }
        if (!last && r.chance(3, 4)) {   // abandoned fragment: an unterminated message, usually longer than what follows
          if (hdr && nmsg) { mk(ENDFRAME, {}); }
          if (hdr) mk(HDR, {0, r.pick({{2, 100000}, {1, 500}})});
          mk(LIT, {r.pick({{2, 0}, {1, 4}, {1, 2}})}); mk(LIT, {3}); mk(REP, {'x', r.pick({{1, 10}, {2, 200}, {2, 3000}, {1, 70000}})});
        }
        int nc = (int)r.pick({{3, 0}, {2, 1}, {1, 3}});
        for (int i = 0; i < nc; ++i) mk(CUT, {r.pick({{1, r.rng(1, 12)}, {3, r.rng(0, 400)}})});
      }
      break; }
    default: {  // batch of many requests
      int n = (int)r.pick({{1, 10}, {2, 2000}, {1, 20000}});
      mk(LIT, {10});
      for (int i = 0; i < n; ++i) { if (i) mk(LIT, {7}); mk(LIT, {r.pick({{2, 6}, {1, 8}, {1, 9}, {1, 14}})}); }
      mk(LIT, {11});
      break; }
  }
  if (hdr) mk(ENDFRAME, {});
  if (shape != 5 && r.chance(1, 4)) mk(LIT, {6});   // something after the extreme part (left unframed for the header proto: an error there)
  int ncut = shape == 5 ? 0 : (int)r.pick({{3, 0}, {3, 1}, {2, 3}});
  for (int i = 0; i < ncut; ++i) mk(CUT, {r.pick({{1, r.rng(1, 12)}, {3, r.rng(0, 1 << 21)}})});
  return sc;
}

SubDef subExtreme = [] {
  SubDef d; d.name = "framing_extreme"; d.op_names = kOpNames; d.op_arity = kArity;
  d.nt_rule = "the input contains at least one complete frame (onRecvData returned > 0 at least once)";
  d.run = [](const Scenario &s, CaseInfo &i) { return runFraming(s, i, P_RAW); };
  d.gen = [] { return seedGen(expandExtreme); };
  return d;
}();
VERIF_REGISTER(&subExtreme);
#endif

}  // namespace
