#!/usr/bin/env python3
"""Writes the libFuzzer seed corpora corpus/C14/framing_{header,raw,packet}/ (run once; the output is committed).

Input format of the fuzz targets (see decodeBytes in framing.cpp): stream bytes, then 2n bytes of big-endian cut
positions, then one byte: n in the low 3 bits, bits 3-4 == 01 switch traffic logging on.  A seed is therefore "stream + trailer"."""
import os, struct, hashlib

ROOT = os.path.join(os.path.dirname(os.path.abspath(__file__)), "..", "..", "corpus", "C14")
MAGIC = 0x53ea

MSGS = [
    b'{"jsonrpc":"2.0","method":"ping","id":3}',
    b'{"id":1,"method":"test","jsonrpc":"2.0"}',
    b'{"jsonrpc":"2.0","method":"n"}',
    b'{"jsonrpc":"2.0","method":"sum","params":[1,-2147483648,2147483647,{"a":"b"}],"id":-1}',
    b'{"jsonrpc":"2.0","id":3,"result":{"k":"]}\\"[{","u":"\\u00e9\xc3\xa9\\\\"}}',
    b'{"jsonrpc":"2.0","id":4,"error":{"code":-32601,"message":"x"}}',
    b'{"jsonrpc":"2.0","id":2147483647,"result":null}',
    b'[{"jsonrpc":"2.0","method":"a","id":1},{"jsonrpc":"2.0","id":1,"result":[[]]},[{"jsonrpc":"2.0","method":"b"}]]',
    b'{"jsonrpc":"1.0","method":"old"}',
    b'{"jsonrpc":"2.0","method":7,"id":"x"}',
    b'{"jsonrpc":"2.0","error":5,"id":1.5}',
    b'[[[[[[[[[[[[[[[[]]]]]]]]]]]]]]]]',
    b'"just a string with ] and }"',
    b' \t\r\n{"jsonrpc":"2.0","method":"ws"}\n',
]


def trailer(cuts, log=False, reuse=False):
    # last byte: low 3 bits = number of cuts, bits 3-4 == 01 -> traffic logging on, bit 5 -> the first cut value v ends a first stream
    # at offset 1 + v % (len(stream) - 1); the rest is a second stream for the same proto object
    return b"".join(struct.pack(">H", c & 0xffff) for c in cuts) + bytes([len(cuts) | (8 if log else 0) | (32 if reuse else 0)])


def hdr(length, magic=MAGIC):
    return struct.pack(">HI", magic, length & 0xffffffff)


def put(sub, data):
    d = os.path.join(ROOT, sub)
    os.makedirs(d, exist_ok=True)
    with open(os.path.join(d, "seed-" + hashlib.sha1(data).hexdigest()[:12] + ".bin"), "wb") as f:
        f.write(data)


def main():
    # ---- header-stream
    for m in MSGS:
        put("framing_header", hdr(len(m)) + m + trailer([]))
        put("framing_header", hdr(len(m)) + m + trailer([3, 6, 6 + len(m) // 2]))
    two = hdr(len(MSGS[0])) + MSGS[0] + hdr(len(MSGS[4])) + MSGS[4]
    put("framing_header", two + trailer([]))
    put("framing_header", two + trailer([len(MSGS[0]) + 6, len(MSGS[0]) + 9]))
    put("framing_header", two[:-5] + trailer([7]))                          # second frame incomplete
    put("framing_header", hdr(len(MSGS[0]), 0xea53) + MSGS[0] + trailer([]))  # wrong magic
    m = MSGS[0]
    size = len(m) + 6
    for length in [0, 1, 2, size - 6 - 1, size - 6 + 1, size - 5, size - 7, 2**31 - 1, 2**31, 2**31 + 1] + list(range(2**32 - 7, 2**32)):
        put("framing_header", hdr(length) + m + trailer([]))
        put("framing_header", hdr(length) + m + hdr(len(m)) + m + trailer([6]))
    put("framing_header", hdr(0) + trailer([]))
    put("framing_header", hdr(2) + b"[]" + hdr(2) + b"{}" + trailer([1, 2, 3, 4, 5]))
    # ---- traffic logging on (a few per framing)
    for m in MSGS[:6]:
        put("framing_header", hdr(len(m)) + m + trailer([], True))
        put("framing_raw", m + trailer([len(m) // 2], True))
        put("framing_packet", m + trailer([], True))
    put("framing_packet", MSGS[0] + MSGS[4] + trailer([len(MSGS[0])], True))
    put("framing_header", two + trailer([9], True))
    # ---- one proto object, two streams: an abandoned fragment, then short complete messages
    frag = b'{"jsonrpc":"2.0","method":"abandoned","params":["' + b"x" * 120
    for short in (MSGS[2], MSGS[0], MSGS[2] + MSGS[0]):
        body = frag + short
        put("framing_raw", body + trailer([len(frag) - 1], reuse=True))
        put("framing_raw", body + trailer([len(frag) - 1, 5], reuse=True))
        hb = hdr(400) + frag + hdr(len(short)) + short
        put("framing_header", hb + trailer([6 + len(frag) - 1], reuse=True))
        put("framing_packet", body + trailer([len(frag) - 1], reuse=True))
    # ---- raw-stream
    for m in MSGS:
        put("framing_raw", m + trailer([]))
        put("framing_raw", m + trailer([1, len(m) // 2, len(m) - 1]))
    put("framing_raw", MSGS[0] + MSGS[4] + MSGS[5] + trailer([len(MSGS[0]) + 30]))
    put("framing_raw", MSGS[0] + b"\n" + MSGS[7] + b" " + trailer([5, 50]))
    put("framing_raw", b']' + MSGS[0] + trailer([]))
    put("framing_raw", b'{"a":"\\\\\\""}' + MSGS[0] + trailer([7, 8, 9]))
    put("framing_raw", b'{"jsonrpc":"2.0","method":"\\\\","params":["\\\\\\\\","}\\"]","\\\\\\"{"]}' + trailer([30, 40]))
    put("framing_raw", b'12 true null' + MSGS[2] + trailer([2]))
    put("framing_raw", b'{"jsonrpc":"2.0","method":"unterminated' + trailer([]))
    # ---- packet (cuts are datagram boundaries)
    for m in MSGS:
        put("framing_packet", m + trailer([]))
    put("framing_packet", MSGS[0] + MSGS[4] + MSGS[5] + trailer([len(MSGS[0]), len(MSGS[0]) + len(MSGS[4])]))
    put("framing_packet", MSGS[0] + MSGS[0] + trailer([]))      # two values in one datagram
    put("framing_packet", MSGS[0][:-1] + trailer([]))
    put("framing_packet", b"{" + trailer([]))
    put("framing_packet", b"[]" + trailer([]))


if __name__ == "__main__":
    main()
