_LIBS = ["jsonrpc", "eventx", "event", "util", "base"]
# smaller allocation stacks / quarantine than the driver default: long rapidcheck campaigns otherwise grow by ~10-30 KB per case
_ASAN = ("detect_leaks=1:detect_stack_use_after_return=0:allocator_may_return_null=1:handle_abort=0:symbolize=1:"
         "malloc_context_size=3:quarantine_size_mb=32")
_DICT = "harness/C14/jsonrpc.dict"
TARGETS = {
    "c14_framing_fuzz": {"src": "C14/framing.cpp", "variant": "asan", "engine": "fuzz", "libs": _LIBS},
    "c14_framing_rc":   {"src": "C14/framing.cpp", "variant": "asan", "engine": "rc", "libs": _LIBS},
    "c14_roundtrip_rc": {"src": "C14/roundtrip.cpp", "variant": "asan", "engine": "rc", "libs": _LIBS},
    "c14_rpc_rc":       {"src": "C14/rpc_once.cpp", "variant": "asan", "engine": "rc", "libs": _LIBS},
}
PROP = {
    "subchecks": [
        # (a) framing_total.  framing_extreme must stay the FIRST rapidcheck sub-check: text replay files of the three fuzz
        # subs carry their own `proto` op and are re-run through it (the driver picks the first non-fuzz sub for *.txt).
        {"target": "c14_framing_rc", "sub": "framing_extreme", "env": {"ASAN_OPTIONS": _ASAN},
         "quick": {"cases": 150, "max_size": 100, "workers": 4, "case_alarm": 120},
         "thorough": {"cases": 1500, "max_size": 100, "workers": 3, "case_alarm": 120}},
        # (b) roundtrip_segmentation
        {"target": "c14_roundtrip_rc", "sub": "roundtrip_segmentation", "env": {"ASAN_OPTIONS": _ASAN},
         "quick": {"cases": 10000, "max_size": 100, "workers": 4, "case_alarm": 60},
         "thorough": {"cases": 200000, "max_size": 100, "workers": 4, "case_alarm": 60}},
        # (c) rpc_once
        {"target": "c14_rpc_rc", "sub": "rpc_once", "env": {"ASAN_OPTIONS": _ASAN},
         "quick": {"cases": 6000, "max_size": 100, "workers": 4, "case_alarm": 60},
         "thorough": {"cases": 120000, "max_size": 100, "workers": 4, "case_alarm": 60}},
        # (a) framing_total, libFuzzer, one sub per proto (even workers start from corpus/C14/<sub>, odd ones from an empty corpus)
        {"target": "c14_framing_fuzz", "sub": "framing_header", "dict": _DICT,
         "quick": {"runs": 75000, "max_len": 512, "workers": 2, "unit_timeout": 60},
         "thorough": {"runs": 1500000, "max_len": 1024, "workers": 2, "unit_timeout": 60}},
        {"target": "c14_framing_fuzz", "sub": "framing_raw", "dict": _DICT,
         "quick": {"runs": 75000, "max_len": 512, "workers": 2, "unit_timeout": 60},
         "thorough": {"runs": 1500000, "max_len": 1024, "workers": 2, "unit_timeout": 60}},
        {"target": "c14_framing_fuzz", "sub": "framing_packet", "dict": _DICT,
         "quick": {"runs": 75000, "max_len": 512, "workers": 2, "unit_timeout": 60},
         "thorough": {"runs": 1500000, "max_len": 1024, "workers": 2, "unit_timeout": 60}},
    ],
    "assumptions": [
        "transport driver as in examples/jsonrpc: caller-owned receive buffer; ret > 0 consumes, ret < 0 drops the connection (stream protos) or the datagram (packet proto), 0 waits for more bytes; a transport never reports 0 readable bytes",
        "'waiting for ever' is not a failure of totality: a header-stream length field of up to 2^32-1 and a raw-stream input starting with an unbalanced ']' or '}' both make onRecvData return 0 (need more) indefinitely",
        "(b) strings are valid UTF-8 (nlohmann's dump() refuses anything else by design), numbers are finite, nesting depth <= 6, ids and error codes are ints; an error response round-trips (id, code) only, its message is not handed to the callback",
        "(b) batch arrays are assembled by the harness from the proto's own per-message encodings (the protos have no batch encoder)",
        "(c) the scripted peer never sends the error code -32000 (indistinguishable from the local timeout error) nor 0; response payloads are unique per delivery",
        "(c) the virtual clock advances in steps of at most 1000 ms, each followed by two idle loop passes, so the loop never lags a tick behind when the next request is issued; timeout window asserted: strictly more than (timeout-1) s after request(), and in the first loop pass at or after timeout s",
        "(c) serving side: the peer never reuses one of its own request ids, services do not call the Rpc from inside the service callback, respond() is called at most once per request and from the top level of a loop pass; 'answered in time' means no later than (timeout-1) s after the request",
        "(c) several lives: cleanup() + initialize() are called from the top level of a loop pass on the same proto object, at most 4 lives; a request outstanding at cleanup() is abandoned (never completed by the code; tolerated: one timeout error); respond() is not called for peer requests of an earlier life",
        "(c) of two copies of a response for the same id inside one batch array both carry the same payload (JSON-RPC does not order a batch)",
        "traffic logging (Proto::setLogEnable(true) + label + a registered log output channel that swallows the lines) is switched on in 21-34 % of the cases of every sub-check; the libraries are built without STATIC_LOG_LEVEL, so LogTrace is compiled in",
        "statelessness across streams: in the unmodified code no proto keeps decoder state between onRecvData calls, so a proto object that is re-used for a new stream (receive buffer from offset 0 after a dropped connection) must decode it exactly like a fresh object",
        "stack exhaustion is tested up to 300 000 nesting levels / 4 MiB runs (8 MiB main-thread stack, ASan frames)",
    ],
}
META = {
    "design_ref": "DESIGN.md section 4, C14",
    "technique": "coverage-guided fuzzing (libFuzzer, one target per framing) of arbitrary byte streams with generated segmentation, plus property-based testing "
                 "(rapidcheck) of (i) deterministic extreme inputs, (ii) encoder/decoder round trips of generated JSON-RPC message sequences under generated, "
                 "per-frame and byte-by-byte segmentation and (iii) generated request / response / clock histories of a real Rpc on a real event loop under a "
                 "virtual monotonic clock (hook H1) against a scripted peer; all under ASan/UBSan with exact-size receive buffers",
    "level_text": "(a) Arbitrary byte strings (seeded with valid frames, frames whose length field is 0, 1, size-6+-1, 2^31 and 2^32-7 .. 2^32-1, unbalanced and string-embedded "
                  "brackets) and a deterministic family of extreme inputs (arrays and objects nested up to 300 000 deep, bare and as params/result, strings of up to "
                  "4 MiB of brackets / backslashes, 1000 frames in one segment, batches of 20 000 requests) are fed to HeaderStreamProto, RawStreamProto and PacketProto "
                  "through the driver loop of the in-tree examples: no exception, crash or sanitizer report, ret <= size, and the unsegmented stream, the generated "
                  "segmentation and byte-by-byte delivery yield the same callback sequence and final state; header-stream frame boundaries also agree with an "
                  "independent reading of the documented layout. (b) Sequences of up to 12 requests / notifications / results / errors (ids and codes at the int32 "
                  "edges, params/results from a JSON grammar of depth <= 6 whose strings mix quotes, backslashes, braces, brackets, control characters, NUL and 2-4 byte "
                  "UTF-8), optionally grouped into batch arrays, are encoded by the proto's own sendRequest/sendResult/sendError; every encoder output read by an "
                  "independent decoder equals the JSON-RPC 2.0 object of the call, and the decoded callback sequence equals the sent sequence unsegmented, with "
                  "generated cuts (aimed into tricky strings, headers and frame boundaries), one frame per segment and byte by byte. (c) Histories of up to 48 requests "
                  "(top-level, from inside completion callbacks, from inside timeout callbacks), notifications, responses (matching, duplicate, late, unknown id, ids "
                  "congruent to a live id modulo 2^32, batched, delivered synchronously inside request() and inside completion callbacks), requests and notifications sent BY the "
                  "peer to synchronous, deferring (answered in time / too late / never through respond()) and unregistered services under ids that collide with the Rpc's own, re-use of the Rpc object (cleanup() + initialize() with requests outstanding, up to 4 lives, answers to requests of earlier lives delivered later) and clock advances, timeout "
                  "1-5 s: every completion callback runs exactly once, with the delivered payload iff delivered while pending and during that delivery, otherwise "
                  "with the timeout error inside its one-tick window; no other response and no peer request causes a callback; each peer request gets at most one response and the documented one "
                  "(error -32601 / the service's synchronous answer / exactly the respond() answer when given before the respond timeout). Exploration only: no counter-example among N generated cases.",
    "level_note": "Trusted: nlohmann::json as the independent JSON parser/printer of the harness, the harness's 6-byte header reader, the scripted peer, ASan/UBSan. "
                  "Six genuine defects were found and are fixed by harness/C14/proposed-fixes/01..06 (the check reports them again if they return; regression inputs in "
                  "corpus/C14/regress). Not asserted: which negative value onRecvData returns, what a parseable but non-JSON-RPC value decodes to (only that it is the same for "
                  "every segmentation), bounded buffering while a proto keeps answering 'need more', respond() after the respond timeout, the answer to a notification for an unregistered method, Rpc::cleanup() with requests pending, "
                  "timer catch-up after the loop was stalled for more than one tick.",
}
