// C14 (c) — every request issued through jsonrpc::Rpc with a completion callback completes exactly once.
//
// One real Rpc on a real Loop under the virtual clock (vloop, hook H1), wired to one of the three real protos;
// the other side is a SCRIPTED PEER inside the harness: it reads every frame the Rpc sends (independent decoder),
// learns the wire id of each request, and delivers responses by handing framed bytes to proto.onRecvData() —
// from the top level of a loop pass, or synchronously from inside the send callback (the wiring of the in-tree
// unit tests, where a response arrives before request() returns), which also puts responses inside completion
// callbacks when those issue further requests.
//
// ops:  cfg proto timeout_s | request sync sarg pay | then kind sync sarg | notify pay | deliver k how pay |
//       unknown sel how | advance ms          (see NOTES.md for the argument tables)
//
// Oracle (all on observed behaviour, no model of the timer ring):
//   * a completion callback never runs twice;
//   * a response handed over while its request was still pending completes it, during that very delivery, with
//     exactly the delivered payload (result -> errcode 0 + result; error -> that code + null);
//   * a callback that runs during the delivery of a response must belong to the request that response names:
//     late, duplicate and unknown-id responses cause no callback;
//   * a callback that runs outside any delivery must be the timeout error (-32000, null), no earlier than
//     (timeout-1) s after the request was issued and no later than the first loop pass at or after timeout s (the
//     documented granularity is one 1-second tick; the clock advances in steps <= 1 s, each followed by idle passes);
//   * after the final drain (clock far beyond every deadline) every request has completed exactly once.
#define VERIF_MAIN
#include "common.h"
#include "../common/vloop.h"
#include <tbox/jsonrpc/rpc.h>
#include <deque>

using namespace verif;
using namespace c14;

namespace {

enum { CFG, REQUEST, THEN, NOTIFY, DELIVER, UNKNOWN, ADVANCE, NOPS };
enum { SY_NONE, SY_RESULT, SY_ERROR, SY_TWICE, SY_OTHER, SY_UNKNOWN, SY_PARENT, NSYNC };
const int kTimeoutErr = -32000;
const int kMaxReqs = 48, kMaxChain = 6;

struct Done { uint64_t t; int errcode; Json result; int ctx; };
struct ThenSpec { int kind, sync, sarg; };
struct Req {
  int parent = -1, top = -1, chain_pos = 0;   // chain_pos: how many `then` specs of the top-level request are already used up to here
  int sync = 0, sarg = 0, pay = 0;
  bool issued = false; int wire_id = 0; uint64_t t_issue = 0; int frames = 0;
  std::vector<Done> done;
  bool in_timeout_cb = false;                 // issued from inside a timeout completion
};
struct Item { int64_t wire_id; int target; bool is_error; int errcode; Json payload; bool pending_at_start = false; };
struct Delivery { std::vector<Item> items; };

Json paramsFor(int pay, int idx) {
  switch (pay) {
    case 1: return Json{{"n", idx}};
    case 2: return Json::array({1, "a]}\"", nullptr});
    case 3: return Json("str \\ \" [");
    case 4: return Json{{"a", {{"b", Json::array({Json{{"c", "\\"}}})}}}};
    case 5: return Json{{"big", 2147483648ll}, {"neg", -2147483648ll}};
    default: return Json();
  }
}

struct World {
  int proto_kind = P_RAW, timeout_s = 1;
  vloop::Clock clk;
  std::unique_ptr<tbox::event::Loop> loop;
  std::unique_ptr<Proto> proto;
  std::unique_ptr<tbox::jsonrpc::Rpc> rpc;
  std::deque<Req> reqs;
  std::vector<std::vector<ThenSpec>> chains;   // per top-level request op
  std::vector<int> top_of_chain;               // chains index -> req index
  std::deque<Delivery> delivs;
  std::vector<int> ctx_stack;                  // deliveries in progress (innermost last)
  std::vector<int> issuing;                    // request being issued (innermost last); -1 = a notification
  std::vector<Json> issuing_params; std::vector<std::string> issuing_method;
  std::string err;
  uint64_t prev_now = 0;                      // clock before the most recent step
  int serial = 0, max_wire_id = 0, notifies = 0, notify_frames = 0;
  // shape statistics
  bool st_late = false, st_dup = false, st_unknown = false, st_pending_resp = false, st_sync = false, st_timeout = false, st_nested = false,
       st_nested_in_timeout = false, st_reentrant_dup = false, st_batch = false, st_err_resp = false, st_future_id = false, st_other_in_cb = false, st_wide_id = false;

  World() : clk(1000000) {}

  void fail(const std::string &m) {
    if (!err.empty()) return;
    err = m;
    fprintf(stderr, "VERIF-FAIL-DIAG rpc_once: %s\n", m.c_str());   // visible in the worker log even if the real code crashes right after
  }
  std::string nameOf(int k) const { return "request #" + std::to_string(k) + " (wire id " + std::to_string(reqs[k].wire_id) + ")"; }
  static std::string showDone(int ec, const Json &r) { return "(errcode " + std::to_string(ec) + ", result " + dumpJ(r) + ")"; }

  // ------------------------------------------------------------------------------------------ completion side
  void onDone(int k, int ec, const Json &r) {
    Req &q = reqs[k];
    int ctx = ctx_stack.empty() ? -1 : ctx_stack.back();
    if (!q.done.empty()) {
      fail("completion callback of " + nameOf(k) + " invoked a second time with " + showDone(ec, r) + "; the first time it got " + showDone(q.done[0].errcode, q.done[0].result));
      q.done.push_back(Done{clk.now, ec, Json(), ctx});
      return;
    }
    q.done.push_back(Done{clk.now, ec, r, ctx});
    if (ctx >= 0) {
      const Item *it = nullptr;
      for (auto &x : delivs[ctx].items) if (x.target == k) { it = &x; break; }
      if (!it) {
        std::string ids; for (auto &x : delivs[ctx].items) ids += (ids.empty() ? "" : ",") + std::to_string(x.wire_id);
        fail(nameOf(k) + " completed with " + showDone(ec, r) + " while a response for id " + ids + " (not its id) was being delivered");
      } else if (it->is_error ? !(ec == it->errcode && r.is_null()) : !(ec == 0 && r == it->payload)) {
        fail(nameOf(k) + " completed with " + showDone(ec, r) + ", but the response delivered for it was " +
             (it->is_error ? "error " + std::to_string(it->errcode) : "result " + dumpJ(it->payload)));
      }
    } else {
      st_timeout = true;
      uint64_t waited = clk.now - q.t_issue;
      if (ec != kTimeoutErr || !r.is_null())
        fail(nameOf(k) + " completed with " + showDone(ec, r) + " although no response was being delivered (expected only the timeout error)");
      // The deadline is the timeout_s-th 1-second tick after the request; ticks are at most 1 s apart, the first one comes
      // strictly after the request (every tick that was due before the request has been dispatched: clock steps are
      // <= 1000 ms and are followed by idle passes), so the deadline D satisfies (timeout_s-1) s < D - t_issue <= timeout_s s.
      // The callback runs in the first pass whose clock is >= D: now >= D > clock before the last step.
      else if (waited <= (uint64_t)(timeout_s - 1) * 1000)
        fail(nameOf(k) + " got the timeout error " + std::to_string(waited) + " ms after it was issued; timeout is " + std::to_string(timeout_s) + " s checked in 1 s ticks");
      else if (prev_now >= q.t_issue + (uint64_t)timeout_s * 1000)
        fail(nameOf(k) + " got the timeout error only " + std::to_string(waited) + " ms after it was issued (the loop had already been idle at +" + std::to_string(prev_now - q.t_issue) +
             " ms without firing it); timeout is " + std::to_string(timeout_s) + " s");
    }
    // the completion callback goes on to use the Rpc: next element of its chain
    if (q.top >= 0 && q.chain_pos < (int)chains[q.top].size() && (int)reqs.size() < kMaxReqs) {
      ThenSpec sp = chains[q.top][q.chain_pos];
      if (sp.kind == 1) { st_nested = true; notify(q.pay); }
      else {
        Req n; n.parent = k; n.top = q.top; n.chain_pos = q.chain_pos + 1; n.sync = sp.sync; n.sarg = sp.sarg; n.pay = (q.pay + 1) % 6; n.in_timeout_cb = ctx < 0;
        reqs.push_back(n);
        st_nested = true; if (ctx < 0) st_nested_in_timeout = true;
        issue((int)reqs.size() - 1);
      }
    }
  }

  // ------------------------------------------------------------------------------------------------ issue side
  void issue(int k) {
    Req &q = reqs[k];
    q.issued = true; q.t_issue = clk.now;
    std::string method = "m" + std::to_string(k);
    Json params = paramsFor(q.pay, k);
    issuing.push_back(k); issuing_params.push_back(params); issuing_method.push_back(method);
    auto cb = [this, k](int ec, const Json &r) { onDone(k, ec, r); };
    if (q.pay == 0) rpc->request(method, cb); else rpc->request(method, params, cb);
    issuing.pop_back(); issuing_params.pop_back(); issuing_method.pop_back();
    if (reqs[k].frames != 1) fail("request() for " + nameOf(k) + " put " + std::to_string(reqs[k].frames) + " frames on the wire");
  }
  void notify(int pay) {
    std::string method = "n" + std::to_string(notifies++);
    Json params = paramsFor(pay, 0);
    issuing.push_back(-1); issuing_params.push_back(params); issuing_method.push_back(method);
    int before = notify_frames;
    if (pay == 0) rpc->notify(method); else rpc->notify(method, params);
    issuing.pop_back(); issuing_params.pop_back(); issuing_method.pop_back();
    if (notify_frames != before + 1) fail("notify() put " + std::to_string(notify_frames - before) + " frames on the wire");
  }

  // the scripted peer reads what the Rpc sends
  void onSend(const void *p, size_t n) {
    std::string chunk((const char *)p, n), text; Json js;
    std::string derr = decodeChunk(proto_kind, chunk, js, text);
    if (!derr.empty()) { fail("frame sent by Rpc: " + derr); return; }
    if (issuing.empty()) { fail("Rpc sent a frame although no request()/notify() call was in progress: " + clip(text)); return; }
    int k = issuing.back();
    Json want = {{"jsonrpc", "2.0"}, {"method", issuing_method.back()}};
    if (!issuing_params.back().is_null()) want["params"] = issuing_params.back();
    if (k < 0) {
      ++notify_frames;
      if (js != want) fail("notify() wrote " + dumpJ(js) + ", expected " + dumpJ(want));
      return;
    }
    Req &q = reqs[k];
    ++q.frames;
    if (!js.is_object() || !js.contains("id") || !js["id"].is_number_integer()) { fail("request() with a callback wrote a frame without an integer id: " + clip(text)); return; }
    int id = js["id"].get<int>();
    want["id"] = id;
    if (js != want) { fail("request() wrote " + dumpJ(js) + ", expected " + dumpJ(want)); return; }
    if (id == 0) { fail("request() with a callback used id 0 (the id of notifications)"); return; }
    for (size_t i = 0; i < reqs.size(); ++i) if ((int)i != k && reqs[i].issued && reqs[i].wire_id == id) { fail("request() reused wire id " + std::to_string(id)); return; }
    q.wire_id = id; if (id > max_wire_id) max_wire_id = id;
    // synchronous reaction of the peer (before request() returns)
    switch (q.sync) {
      case SY_RESULT: st_sync = true; deliverFor(k, 0, false); break;
      case SY_ERROR: st_sync = true; deliverFor(k, 1, false); break;
      case SY_TWICE: st_sync = true; deliverFor(k, 0, false); deliverFor(k, 0, false); break;
      case SY_OTHER: { int o = pickOther(q.sarg, k); if (o >= 0) { st_sync = true; if (!ctx_stack.empty() || q.parent >= 0) st_other_in_cb = true; deliverFor(o, q.sarg % 2, false); } break; }
      case SY_UNKNOWN: st_sync = true; deliverUnknown(q.sarg % 8, 0); break;
      case SY_PARENT: if (q.parent >= 0) { st_sync = true; st_reentrant_dup = true; deliverFor(q.parent, 0, false); } break;
      default: break;
    }
  }
  int pickOther(int sel, int self) const {
    std::vector<int> c; for (size_t i = 0; i < reqs.size(); ++i) if ((int)i != self && reqs[i].issued && reqs[i].wire_id != 0) c.push_back((int)i);
    return c.empty() ? -1 : c[(size_t)sel % c.size()];
  }

  // --------------------------------------------------------------------------------------------- delivery side
  Item mkItem(int target, int64_t wire_id, bool is_error) {
    Item it; it.wire_id = wire_id; it.target = target; it.is_error = is_error; ++serial;
    it.errcode = -(100 + serial);
    it.payload = Json{{"d", serial}, {"v", paramsFor(serial % 6, serial)}};
    return it;
  }
  static Json wireOf(const Item &it) {
    if (it.is_error) return Json{{"jsonrpc", "2.0"}, {"id", it.wire_id}, {"error", {{"code", it.errcode}, {"message", "scripted"}}}};
    return Json{{"jsonrpc", "2.0"}, {"id", it.wire_id}, {"result", it.payload}};
  }
  void deliver(std::vector<Item> items, bool batch) {
    if (!err.empty()) return;
    int d = (int)delivs.size();
    delivs.emplace_back();
    for (auto &it : items) {
      it.pending_at_start = it.target >= 0 && reqs[it.target].done.empty();
      if (it.target < 0) st_unknown = true;
      else if (it.pending_at_start) { st_pending_resp = true; if (it.is_error) st_err_resp = true; }
      else { bool by_timeout = reqs[it.target].done[0].errcode == kTimeoutErr && reqs[it.target].done[0].ctx < 0; if (by_timeout) st_late = true; else st_dup = true; }
    }
    delivs[d].items = items;
    Json js;
    if (batch) { js = Json::array(); for (auto &it : items) js.push_back(wireOf(it)); st_batch = true; } else js = wireOf(items[0]);
    std::string frame = frameText(proto_kind, js.dump());
    ctx_stack.push_back(d);
    ssize_t ret = callExact(*proto, frame.data(), frame.size());
    ctx_stack.pop_back();
    if (ret != (ssize_t)frame.size()) { fail("onRecvData returned " + std::to_string(ret) + " for a well-formed response frame of " + std::to_string(frame.size()) + " bytes"); return; }
    for (auto &it : delivs[d].items)
      if (it.pending_at_start && reqs[it.target].done.empty())
        fail("a response for pending " + nameOf(it.target) + " was delivered but its completion callback did not run");
  }
  void deliverFor(int k, int how, bool top_level) {
    (void)top_level;
    int id = reqs[k].wire_id;
    switch (how) {
      case 0: deliver({mkItem(k, id, false)}, false); break;
      case 1: deliver({mkItem(k, id, true)}, false); break;
      case 2: deliver({mkItem(k, id, false)}, false); deliver({mkItem(k, id, false)}, false); break;
      case 3: { Item a = mkItem(k, id, false); Item b = a; deliver({a, b}, true); break; }
      default: { Item u = mkItem(-1, max_wire_id + 7, false); deliver({u, mkItem(k, id, false)}, true); break; }
    }
  }
  void deliverUnknown(int sel, int how) {
    int64_t id;
    switch (sel % 8) {
      case 0: id = max_wire_id + 1; st_future_id = true; break;
      case 1: id = 0; break;
      case 2: id = -1; break;
      case 3: id = INT_MAX; break;
      case 4: id = max_wire_id + 1000; break;
      default: {   // an id outside the int range that is congruent to an issued id modulo 2^32 (5: pending preferred, 6: completed preferred, 7: negative)
        int pick = -1;
        for (size_t i = 0; i < reqs.size(); ++i) if (reqs[i].issued && reqs[i].wire_id != 0) { if (pick < 0) pick = (int)i; if (reqs[i].done.empty() == (sel % 8 != 6)) { pick = (int)i; break; } }
        if (pick < 0) return;
        id = (int64_t)reqs[pick].wire_id + (sel % 8 == 7 ? -4294967296ll : 4294967296ll);
        st_wide_id = true;
        break; }
    }
    for (auto &q : reqs) if (q.issued && q.wire_id == id) return;   // not unknown after all
    deliver({mkItem(-1, id, how % 2 != 0)}, false);
  }
};

std::string run(const Scenario &s, CaseInfo &info) {
  World w;
  // ---- parse
  struct TopOp { int code; const Op *op; int chain = -1; };
  std::vector<TopOp> tops;
  for (auto &op : s.ops) {
    switch (op.code) {
      case CFG: w.proto_kind = (int)op.in(0, 0, NPROTO - 1); w.timeout_s = (int)op.in(1, 1, 5); break;
      case REQUEST: { TopOp t{REQUEST, &op, (int)w.chains.size()}; w.chains.emplace_back(); tops.push_back(t); break; }
      case THEN: if (!w.chains.empty() && (int)w.chains.back().size() < kMaxChain && !tops.empty())
                   w.chains.back().push_back(ThenSpec{(int)op.in(0, 0, 1), (int)op.in(1, 0, NSYNC - 1), (int)op.in(2, 0, 63)});
                 break;
      case NOTIFY: case DELIVER: case UNKNOWN: case ADVANCE: tops.push_back(TopOp{op.code, &op}); break;
      default: break;
    }
  }
  if (tops.size() > 60) tops.resize(60);
  // a `then` chain belongs to the most recent `request`; make sure later non-request ops do not detach it (they do not: chains.back())
  // ---- set up the real objects
  w.loop.reset(tbox::event::Loop::New());
  w.proto = mkProto(w.proto_kind);
  w.rpc.reset(new tbox::jsonrpc::Rpc(w.loop.get()));
  w.rpc->initialize(w.proto.get(), w.timeout_s);
  w.proto->setSendCallback([&w](const void *p, size_t n) { w.onSend(p, n); });

  // ---- micro steps: one op per loop pass; the clock moves in steps <= 1000 ms, each followed by two idle passes
  struct Step { int kind; int idx; uint64_t ms; };   // 0 = op, 1 = advance, 2 = idle
  std::vector<Step> steps;
  for (size_t i = 0; i < tops.size(); ++i) {
    if (tops[i].code == ADVANCE) {
      uint64_t ms = (uint64_t)tops[i].op->in(0, 1, 7000);
      uint64_t first = ms % 1000;
      if (first) { steps.push_back({1, 0, first}); steps.push_back({2, 0, 0}); steps.push_back({2, 0, 0}); }
      for (uint64_t k = 0; k < ms / 1000; ++k) { steps.push_back({1, 0, 1000}); steps.push_back({2, 0, 0}); steps.push_back({2, 0, 0}); }
    } else steps.push_back({0, (int)i, 0});
  }
  size_t pc = 0; int idle_left = 0; uint64_t drained = 0;
  auto anyPending = [&w]() { for (auto &q : w.reqs) if (q.issued && q.done.empty()) return true; return false; };
  auto execOp = [&](const TopOp &t) {
    const Op &op = *t.op;
    switch (t.code) {
      case REQUEST: {
        if ((int)w.reqs.size() >= kMaxReqs) break;
        Req q; q.top = t.chain; q.chain_pos = 0; q.sync = (int)op.in(0, 0, NSYNC - 1); q.sarg = (int)op.in(1, 0, 63); q.pay = (int)op.in(2, 0, 5);
        w.reqs.push_back(q);
        w.issue((int)w.reqs.size() - 1);
        break; }
      case NOTIFY: w.notify((int)op.in(0, 0, 5)); break;
      case DELIVER: {
        std::vector<int> c; for (size_t i = 0; i < w.reqs.size(); ++i) if (w.reqs[i].issued && w.reqs[i].wire_id != 0) c.push_back((int)i);
        if (c.empty()) break;
        w.deliverFor(c[(size_t)op.in(0, 0, 1 << 20) % c.size()], (int)op.in(1, 0, 4), true);
        break; }
      case UNKNOWN: w.deliverUnknown((int)op.in(0, 0, 7), (int)op.in(1, 0, 1)); break;
      default: break;
    }
  };
  vloop::drive(w.loop.get(), [&](int) -> bool {
    if (!w.err.empty()) return false;
    if (pc < steps.size()) {
      const Step &st = steps[pc++];
      if (st.kind == 0) execOp(tops[st.idx]); else if (st.kind == 1) { w.prev_now = w.clk.now; w.clk.now += st.ms; }
      return true;
    }
    if (idle_left > 0) { --idle_left; return true; }
    if (anyPending() && drained < 80000) { w.prev_now = w.clk.now; w.clk.now += 500; drained += 500; idle_left = 2; return true; }   // final drain
    return false;
  });
  std::string err = w.err;
  if (err.empty())
    for (size_t k = 0; k < w.reqs.size(); ++k) {
      const Req &q = w.reqs[k];
      if (q.issued && q.done.size() != 1) { err = w.nameOf((int)k) + ": completion callback ran " + std::to_string(q.done.size()) + " times by the final drain (clock " + std::to_string(w.clk.now - q.t_issue) + " ms past the request, timeout " + std::to_string(w.timeout_s) + " s)"; break; }
    }
  // ---- tear down as the examples do
  w.rpc->cleanup();
  vloop::passes(w.loop.get(), 2);
  w.rpc.reset();
  w.loop->cleanup();
  w.loop.reset();
  w.proto.reset();
  if (!err.empty()) return std::string(kProtoName[w.proto_kind]) + ", timeout " + std::to_string(w.timeout_s) + " s: " + err;

  info.cls(kProtoName[w.proto_kind]);
  info.cls_if(w.st_pending_resp, "response_while_pending");
  info.cls_if(w.st_err_resp, "error_response_while_pending");
  info.cls_if(w.st_late, "late_response_after_timeout");
  info.cls_if(w.st_dup, "duplicate_response");
  info.cls_if(w.st_unknown, "unknown_id_response");
  info.cls_if(w.st_future_id, "response_for_not_yet_issued_id");
  info.cls_if(w.st_wide_id, "response_id_outside_int_range_congruent_to_issued_id");
  info.cls_if(w.st_sync, "synchronous_response_inside_request()");
  info.cls_if(w.st_timeout, "timeout_fired");
  info.cls_if(w.st_nested, "request_or_notify_from_completion_callback");
  info.cls_if(w.st_nested_in_timeout, "request_from_timeout_callback");
  info.cls_if(w.st_reentrant_dup, "duplicate_of_completing_request_delivered_inside_its_callback");
  info.cls_if(w.st_other_in_cb, "other_request_completed_inside_a_callback");
  info.cls_if(w.st_batch, "batch_response");
  info.cls_if(w.notifies > 0, "notify");
  info.cls_if(w.reqs.size() >= 5, "requests>=5");
  info.nontrivial = w.st_late && w.st_nested;
  return "";
}

#ifndef VERIF_ENGINE_FUZZ
Scenario expand(uint64_t seed) {
  Rng r(seed);
  Scenario sc; auto &v = sc.ops;
  auto mk = [&v](int code, std::vector<int64_t> a) { Op o; o.code = code; o.a = std::move(a); v.push_back(std::move(o)); };
  int timeout = (int)r.pick({{3, 1}, {3, 2}, {2, 3}, {1, 5}});
  mk(CFG, {r.rng(0, 2), timeout});
  int n = (int)r.pick({{1, 2}, {3, 6}, {3, 12}, {2, 24}});
  auto sync = [&]() { return r.pick({{8, SY_NONE}, {2, SY_RESULT}, {1, SY_ERROR}, {1, SY_TWICE}, {2, SY_OTHER}, {1, SY_UNKNOWN}, {2, SY_PARENT}}); };
  for (int i = 0; i < n; ++i) {
    switch (r.pick({{6, REQUEST}, {1, NOTIFY}, {5, DELIVER}, {1, UNKNOWN}, {5, ADVANCE}})) {
      case REQUEST: {
        mk(REQUEST, {sync(), r.rng(0, 63), r.rng(0, 5)});
        int nt = (int)r.pick({{5, 0}, {3, 1}, {2, 2}, {1, 4}});
        for (int k = 0; k < nt; ++k) mk(THEN, {r.pick({{5, 0}, {1, 1}}), sync(), r.rng(0, 63)});
        break; }
      case NOTIFY: mk(NOTIFY, {r.rng(0, 5)}); break;
      case DELIVER: mk(DELIVER, {r.rng(0, 1000), r.pick({{5, 0}, {2, 1}, {1, 2}, {1, 3}, {1, 4}}), 0}); break;
      case UNKNOWN: mk(UNKNOWN, {r.rng(0, 7), r.rng(0, 1)}); break;
      default: mk(ADVANCE, {r.pick({{2, r.rng(1, 999)}, {2, 1000}, {2, timeout * 1000 - 1000 + r.rng(-1, 1)}, {2, timeout * 1000 + r.rng(-1, 1)}, {1, r.rng(1, 7000)}})}); break;
    }
  }
  return sc;
}
#endif

SubDef def = [] {
  SubDef d; d.name = "rpc_once";
  d.op_names = {"cfg", "request", "then", "notify", "deliver", "unknown", "advance"};
  d.op_arity = {2, 3, 3, 1, 3, 2, 1};
  d.nt_rule = "a response was delivered for a request that had already completed with the timeout error, and a completion callback issued a further request or notification";
  d.run = run;
#ifndef VERIF_ENGINE_FUZZ
  d.gen = [] { return seedGen(expand); };
#endif
  return d;
}();
VERIF_REGISTER(&def);
}  // namespace
