// C14 (c) — every request issued through jsonrpc::Rpc with a completion callback completes exactly once.
//
// One real Rpc on a real Loop under the virtual clock (vloop, hook H1), wired to one of the three real protos;
// the other side is a SCRIPTED PEER inside the harness: it reads every frame the Rpc sends (independent decoder),
// learns the wire id of each request, and delivers responses by handing framed bytes to proto.onRecvData() —
// from the top level of a loop pass, or synchronously from inside the send callback (the wiring of the in-tree
// unit tests, where a response arrives before request() returns), which also puts responses inside completion
// callbacks when those issue further requests.
//
// The peer is also a CLIENT of the endpoint under test: it sends requests / notifications to three services
// registered with addService() ("svc_sync" answers from inside the callback, "svc_defer" returns false and the
// harness answers later through Rpc::respond() — or never) and to a method that is not registered.  The peer
// numbers its requests independently of the Rpc, preferably with exactly the ids the Rpc uses for its own requests.
//
// ops:  cfg proto timeout_s log | request sync sarg pay | then kind sync sarg | notify pay | deliver k how pay |
//       unknown sel how | advance ms | peerreq idsel kind pay delay_ms | peernotify kind pay | relife timeout_s
//       (see NOTES.md for the argument tables)
//
// Oracle (all on observed behaviour, no model of the timer ring):
//   * a completion callback never runs twice;
//   * a response handed over while its request was still pending completes it, during that very delivery, with
//     exactly the delivered payload (result -> errcode 0 + result; error -> that code + null);
//   * a callback that runs during the delivery of a response must belong to the request that response names:
//     late, duplicate and unknown-id responses cause no callback;
//   * a callback that runs outside any delivery must be the timeout error (-32000, null), no earlier than
//     (timeout-1) s after the request was issued and no later than the first loop pass at or after timeout s (the
//     documented granularity is one 1-second tick; the clock advances in steps <= 1 s, each followed by idle passes);
//   * after the final drain (clock far beyond every deadline) every request has completed exactly once;
//   * all of the above holds whatever the peer sends as requests of its own (no completion callback runs while a
//     peer request is being delivered; serving a peer request never completes, delays or shortens an own request);
//   * several lives of one Rpc object (`relife`: cleanup() + initialize() on the same proto, requests outstanding): a
//     response that belongs to a request of an EARLIER life — late or duplicate, delivered in a later life — is ignored:
//     it completes nothing, in particular not a request of the current life (each response carries the identity of the
//     request the peer answers, not just a number); requests of the current life keep every clause above, including
//     the timeout error.  A request that was outstanding at cleanup() is abandoned: its callback must not run for a
//     response any more (the code drops it; a timeout error for it would be tolerated, once);
//   * serving side, only what rpc.h / rpc.cpp / rpc_test.cpp document: a registered service is invoked exactly once
//     per peer request with the peer's id (0 for a notification) and params; a peer request with an id gets at most
//     one response; unregistered method -> exactly one error -32601, at once; service returned true -> exactly one
//     response at once (errcode 0: the result, else the error code); service returned false -> nothing until
//     respond() is called, and a respond() issued before the respond timeout can have passed ((timeout-1) s) puts
//     exactly that answer on the wire; a notification to a registered service gets no response.  Left free: whether
//     respond() after the respond timeout still sends (it does), the answer to a notification for an unregistered
//     method (the code sends error -32601 with id 0), anything about a deferred request that is never answered
//     except "at most one response and not a result".
#define VERIF_MAIN
#include "common.h"
#include "../common/vloop.h"
#include <tbox/jsonrpc/rpc.h>
#include <deque>

using namespace verif;
using namespace c14;

namespace {

enum { CFG, REQUEST, THEN, NOTIFY, DELIVER, UNKNOWN, ADVANCE, PEERREQ, PEERNOTIFY, RELIFE, NOPS };
enum { SY_NONE, SY_RESULT, SY_ERROR, SY_TWICE, SY_OTHER, SY_UNKNOWN, SY_PARENT, SY_PEERREQ, NSYNC };
enum { K_NOSUCH, K_SYNC_OK, K_SYNC_ERR, K_DEFER_OK, K_DEFER_ERR, K_DEFER_NEVER, NKIND };
const int kTimeoutErr = -32000;
const int kMaxReqs = 48, kMaxChain = 6, kMaxIncoming = 24, kMaxLives = 4;
const int kMethodNotFound = -32601;

struct Done { uint64_t t; int errcode; Json result; int ctx; };
struct ThenSpec { int kind, sync, sarg; };
struct Req {
  int parent = -1, top = -1, chain_pos = 0;   // chain_pos: how many `then` specs of the top-level request are already used up to here
  int sync = 0, sarg = 0, pay = 0;
  bool issued = false; int wire_id = 0; uint64_t t_issue = 0; int frames = 0;
  std::vector<Done> done;
  bool in_timeout_cb = false;                 // issued from inside a timeout completion
  int life = 0, timeout_s = 1, ordinal = 0;   // life of the Rpc object it was issued in, the timeout of that life, its number within that life (1, 2, ...)
};
struct Item { int64_t wire_id; int target; bool is_error; int errcode; Json payload; bool pending_at_start = false; };
struct Delivery { std::vector<Item> items; int incoming = -1; };   // incoming >= 0: a peer REQUEST is being delivered (no items)
// a request / notification the peer sends to the endpoint under test
struct Resp { bool is_error; int code; Json result; uint64_t t; };
struct Incoming {
  bool has_id = true; int id = 0; int kind = K_NOSUCH, pay = 0; uint64_t t_in = 0, delay = 0;
  std::string method; Json params;
  int invoked = 0;                 // service invocations
  int errcode = 0; Json result;    // what the service / the later respond() call answers
  bool answered = false, in_time = false, abandoned = false; uint64_t t_answer = 0;
  int life = 0, timeout_s = 1;
  std::vector<Resp> resps;         // response frames the Rpc put on the wire for this id
};

// argument used as written when it lies in [lo, hi] (Op::in() shifts in-range values by lo when lo != 0), folded into the range otherwise
int64_t direct(const Op &op, size_t i, int64_t lo, int64_t hi) { int64_t v = op.arg(i, lo); return (v >= lo && v <= hi) ? v : op.in(i, lo, hi); }

Json paramsFor(int pay, int idx) {
  switch (pay) {
    case 1: return Json{{"n", idx}};
    case 2: return Json::array({1, "a]}\"", nullptr});
    case 3: return Json("str \\ \" [");
    case 4: return Json{{"a", {{"b", Json::array({Json{{"c", "\\"}}})}}}};
    case 5: return Json{{"big", 2147483648ll}, {"neg", -2147483648ll}};
    default: return Json();
  }
}

struct World {
  int proto_kind = P_RAW, timeout_s = 1; bool log = false;   // log: traffic logging on (setLogEnable + a registered log channel)
  vloop::Clock clk;
  std::unique_ptr<tbox::event::Loop> loop;
  std::unique_ptr<Proto> proto;
  std::unique_ptr<tbox::jsonrpc::Rpc> rpc;
  std::deque<Req> reqs;
  std::vector<std::vector<ThenSpec>> chains;   // per top-level request op
  std::vector<int> top_of_chain;               // chains index -> req index
  std::deque<Delivery> delivs;
  std::vector<int> ctx_stack;                  // deliveries in progress (innermost last)
  std::vector<int> issuing;                    // request being issued (innermost last); -1 = a notification
  std::vector<Json> issuing_params; std::vector<std::string> issuing_method;
  std::deque<Incoming> incs;
  std::vector<int> inc_stack;                  // peer requests being delivered (innermost last)
  int answering = -1;                          // incoming request the harness is calling respond() for
  std::string err;
  uint64_t prev_now = 0;                      // clock before the most recent step
  int serial = 0, max_wire_id = 0, notifies = 0, notify_frames = 0;
  int life = 0, life_reqs = 0;                 // current life of the Rpc object, requests with a callback issued in it
  // shape statistics
  bool st_late = false, st_dup = false, st_unknown = false, st_pending_resp = false, st_sync = false, st_timeout = false, st_nested = false,
       st_nested_in_timeout = false, st_reentrant_dup = false, st_batch = false, st_err_resp = false, st_future_id = false, st_other_in_cb = false, st_wide_id = false,
       st_inc_nosuch = false, st_inc_sync = false, st_inc_defer_answered = false, st_inc_defer_late = false, st_inc_never = false, st_inc_notify = false,
       st_inc_collide = false, st_inc_in_send = false, st_notif_nosuch_answered = false,
       st_relife = false, st_relife_outstanding = false, st_stale = false, st_stale_dup = false, st_stale_ordinal = false, st_timeout_later_life = false, st_resp_later_life = false;

  World() : clk(1000000) {}

  void fail(const std::string &m) {
    if (!err.empty()) return;
    err = m;
    fprintf(stderr, "VERIF-FAIL-DIAG rpc_once: %s\n", m.c_str());   // visible in the worker log even if the real code crashes right after
  }
  std::string nameOf(int k) const { return "request #" + std::to_string(k) + " (wire id " + std::to_string(reqs[k].wire_id) + ")"; }
  static std::string showDone(int ec, const Json &r) { return "(errcode " + std::to_string(ec) + ", result " + dumpJ(r) + ")"; }

  // ------------------------------------------------------------------------------------------ completion side
  void onDone(int k, int ec, const Json &r) {
    Req &q = reqs[k];
    int ctx = ctx_stack.empty() ? -1 : ctx_stack.back();
    if (!q.done.empty()) {
      fail("completion callback of " + nameOf(k) + " invoked a second time with " + showDone(ec, r) + "; the first time it got " + showDone(q.done[0].errcode, q.done[0].result));
      q.done.push_back(Done{clk.now, ec, Json(), ctx});
      return;
    }
    q.done.push_back(Done{clk.now, ec, r, ctx});
    if (q.life != life) {   // outstanding at cleanup(): abandoned
      if (ctx >= 0) fail(nameOf(k) + " was outstanding when the Rpc was cleaned up (life " + std::to_string(q.life) + "), yet in life " + std::to_string(life) + " it completed with " + showDone(ec, r) + " for a late response");
      else if (ec != kTimeoutErr || !r.is_null()) fail(nameOf(k) + " of life " + std::to_string(q.life) + " completed with " + showDone(ec, r) + " in life " + std::to_string(life) + " although no response was being delivered");
      return;
    }
    if (life > 0) { if (ctx >= 0) st_resp_later_life = true; else st_timeout_later_life = true; }
    const int timeout_s = q.timeout_s;   // (the timeout of the life the request belongs to)
    if (ctx >= 0) {
      const Item *it = nullptr;
      for (auto &x : delivs[ctx].items) if (x.target == k) { it = &x; break; }
      if (!it && delivs[ctx].incoming >= 0) {
        fail(nameOf(k) + " completed with " + showDone(ec, r) + " while the peer's own request (id " + std::to_string(incs[delivs[ctx].incoming].id) + ", method " + incs[delivs[ctx].incoming].method + ") was being delivered");
      } else if (!it) {
        std::string ids; const Item *same = nullptr;
        for (auto &x : delivs[ctx].items) { ids += (ids.empty() ? "" : ",") + std::to_string(x.wire_id); if (x.wire_id == q.wire_id && x.target >= 0) same = &x; }
        if (same) fail(nameOf(k) + " of life " + std::to_string(q.life) + " completed with " + showDone(ec, r) + ": that is the peer's answer to request #" + std::to_string(same->target) + " of life " +
                       std::to_string(reqs[same->target].life) + " (same number on the wire, an earlier life of the Rpc object) - a late response of an earlier life must be ignored");
        else fail(nameOf(k) + " completed with " + showDone(ec, r) + " while a response for id " + ids + " (not its id) was being delivered");
      } else if (it->is_error ? !(ec == it->errcode && r.is_null()) : !(ec == 0 && r == it->payload)) {
        fail(nameOf(k) + " completed with " + showDone(ec, r) + ", but the response delivered for it was " +
             (it->is_error ? "error " + std::to_string(it->errcode) : "result " + dumpJ(it->payload)));
      }
    } else {
      st_timeout = true;
      uint64_t waited = clk.now - q.t_issue;
      if (ec != kTimeoutErr || !r.is_null())
        fail(nameOf(k) + " completed with " + showDone(ec, r) + " although no response was being delivered (expected only the timeout error)");
      // The deadline is the timeout_s-th 1-second tick after the request; ticks are at most 1 s apart, the first one comes
      // strictly after the request (every tick that was due before the request has been dispatched: clock steps are
      // <= 1000 ms and are followed by idle passes), so the deadline D satisfies (timeout_s-1) s < D - t_issue <= timeout_s s.
      // The callback runs in the first pass whose clock is >= D: now >= D > clock before the last step.
      else if (waited <= (uint64_t)(timeout_s - 1) * 1000)
        fail(nameOf(k) + " got the timeout error " + std::to_string(waited) + " ms after it was issued; timeout is " + std::to_string(timeout_s) + " s checked in 1 s ticks");
      else if (prev_now >= q.t_issue + (uint64_t)timeout_s * 1000)
        fail(nameOf(k) + " got the timeout error only " + std::to_string(waited) + " ms after it was issued (the loop had already been idle at +" + std::to_string(prev_now - q.t_issue) +
             " ms without firing it); timeout is " + std::to_string(timeout_s) + " s");
    }
    // the completion callback goes on to use the Rpc: next element of its chain
    if (q.top >= 0 && q.chain_pos < (int)chains[q.top].size() && (int)reqs.size() < kMaxReqs) {
      ThenSpec sp = chains[q.top][q.chain_pos];
      if (sp.kind == 1) { st_nested = true; notify(q.pay); }
      else {
        Req n; n.parent = k; n.top = q.top; n.chain_pos = q.chain_pos + 1; n.sync = sp.sync; n.sarg = sp.sarg; n.pay = (q.pay + 1) % 6; n.in_timeout_cb = ctx < 0;
        reqs.push_back(n);
        st_nested = true; if (ctx < 0) st_nested_in_timeout = true;
        issue((int)reqs.size() - 1);
      }
    }
  }

  // ------------------------------------------------------------------------------------------------ issue side
  void issue(int k) {
    Req &q = reqs[k];
    q.issued = true; q.t_issue = clk.now; q.life = life; q.timeout_s = timeout_s; q.ordinal = ++life_reqs;
    std::string method = "m" + std::to_string(k);
    Json params = paramsFor(q.pay, k);
    issuing.push_back(k); issuing_params.push_back(params); issuing_method.push_back(method);
    auto cb = [this, k](int ec, const Json &r) { onDone(k, ec, r); };
    if (q.pay == 0) rpc->request(method, cb); else rpc->request(method, params, cb);
    issuing.pop_back(); issuing_params.pop_back(); issuing_method.pop_back();
    if (reqs[k].frames != 1) fail("request() for " + nameOf(k) + " put " + std::to_string(reqs[k].frames) + " frames on the wire");
  }
  void notify(int pay) {
    std::string method = "n" + std::to_string(notifies++);
    Json params = paramsFor(pay, 0);
    issuing.push_back(-1); issuing_params.push_back(params); issuing_method.push_back(method);
    int before = notify_frames;
    if (pay == 0) rpc->notify(method); else rpc->notify(method, params);
    issuing.pop_back(); issuing_params.pop_back(); issuing_method.pop_back();
    if (notify_frames != before + 1) fail("notify() put " + std::to_string(notify_frames - before) + " frames on the wire");
  }

  // the scripted peer reads what the Rpc sends
  void onSend(const void *p, size_t n) {
    std::string chunk((const char *)p, n), text; Json js;
    std::string derr = decodeChunk(proto_kind, chunk, js, text);
    if (!derr.empty()) { fail("frame sent by Rpc: " + derr); return; }
    if (js.is_object() && !js.contains("method")) { onSendResponse(js, text); return; }   // the Rpc answers a peer request
    if (issuing.empty()) { fail("Rpc sent a frame although no request()/notify() call was in progress: " + clip(text)); return; }
    int k = issuing.back();
    Json want = {{"jsonrpc", "2.0"}, {"method", issuing_method.back()}};
    if (!issuing_params.back().is_null()) want["params"] = issuing_params.back();
    if (k < 0) {
      ++notify_frames;
      if (js != want) fail("notify() wrote " + dumpJ(js) + ", expected " + dumpJ(want));
      return;
    }
    Req &q = reqs[k];
    ++q.frames;
    if (!js.is_object() || !js.contains("id") || !js["id"].is_number_integer()) { fail("request() with a callback wrote a frame without an integer id: " + clip(text)); return; }
    int id = js["id"].get<int>();
    want["id"] = id;
    if (js != want) { fail("request() wrote " + dumpJ(js) + ", expected " + dumpJ(want)); return; }
    if (id == 0) { fail("request() with a callback used id 0 (the id of notifications)"); return; }
    for (size_t i = 0; i < reqs.size(); ++i) if ((int)i != k && reqs[i].issued && reqs[i].life == life && reqs[i].wire_id == id) { fail("request() reused wire id " + std::to_string(id) + " within one life"); return; }
    q.wire_id = id; if (id > max_wire_id) max_wire_id = id;
    // synchronous reaction of the peer (before request() returns)
    switch (q.sync) {
      case SY_RESULT: st_sync = true; deliverFor(k, 0, false); break;
      case SY_ERROR: st_sync = true; deliverFor(k, 1, false); break;
      case SY_TWICE: st_sync = true; deliverFor(k, 0, false); deliverFor(k, 0, false); break;
      case SY_OTHER: { int o = pickOther(q.sarg, k); if (o >= 0) { st_sync = true; if (!ctx_stack.empty() || q.parent >= 0) st_other_in_cb = true; deliverFor(o, q.sarg % 2, false); } break; }
      case SY_UNKNOWN: st_sync = true; deliverUnknown(q.sarg % 8, 0); break;
      case SY_PARENT: if (q.parent >= 0) { st_sync = true; st_reentrant_dup = true; deliverFor(q.parent, 0, false); } break;
      case SY_PEERREQ: {   // the peer reacts with a request of its own that carries the very same id
        static const int kinds[] = {K_DEFER_NEVER, K_NOSUCH, K_SYNC_OK, K_DEFER_OK};
        st_inc_in_send = true; peerRequest(true, id, kinds[q.sarg % 4], q.sarg % 6, (uint64_t)(q.sarg % 4) * 700); break; }
      default: break;
    }
  }

  // ------------------------------------------------------------------------------------- the peer as a client
  // response frames written by the Rpc
  void onSendResponse(const Json &js, const std::string &text) {
    bool has_result = js.contains("result"), has_error = js.contains("error");
    if (!js.contains("jsonrpc") || js["jsonrpc"] != "2.0" || !js.contains("id") || !js["id"].is_number_integer() || has_result == has_error ||
        (has_error && !(js["error"].is_object() && js["error"].contains("code") && js["error"]["code"].is_number_integer()))) {
      fail("Rpc wrote a frame that is neither a request nor a well-formed response: " + clip(text)); return;
    }
    int64_t id = js["id"].get<int64_t>();
    Resp rs{has_error, has_error ? js["error"]["code"].get<int>() : 0, has_result ? js["result"] : Json(), clk.now};
    std::string what = (rs.is_error ? "error " + std::to_string(rs.code) : "result " + dumpJ(rs.result)) + " for id " + std::to_string(id);
    int cur = inc_stack.empty() ? -1 : inc_stack.back();
    if (id == 0) {
      // not fixed by the documentation: a notification for an unregistered method is answered with error -32601, id 0
      if (cur >= 0 && !incs[cur].has_id && incs[cur].kind == K_NOSUCH && rs.is_error) { st_notif_nosuch_answered = true; return; }
      fail("Rpc sent a response with id 0 (" + what + ")"); return;
    }
    int k = -1;
    for (size_t i = 0; i < incs.size(); ++i) if (incs[i].has_id && incs[i].id == id) k = (int)i;
    if (k < 0) { fail("Rpc sent " + what + " although the peer never sent a request with that id"); return; }
    Incoming &in = incs[k];
    std::string who = "peer request id " + std::to_string(in.id) + " (" + in.method + ")";
    in.resps.push_back(rs);
    if (in.resps.size() > 1) { fail(who + " got a second response: " + what); return; }
    switch (in.kind) {
      case K_NOSUCH:
        if (cur != k) fail(who + ": response " + what + " was not sent while the request was being handled");
        else if (!rs.is_error || rs.code != kMethodNotFound) fail(who + ": method is not registered, expected error -32601, got " + what);
        break;
      case K_SYNC_OK: case K_SYNC_ERR:
        if (cur != k) fail(who + ": service answered synchronously, but " + what + " was not sent while the request was being handled");
        else if (in.kind == K_SYNC_OK ? (rs.is_error || rs.result != in.result) : (!rs.is_error || rs.code != in.errcode))
          fail(who + ": service answered " + (in.kind == K_SYNC_OK ? "result " + dumpJ(in.result) : "errcode " + std::to_string(in.errcode)) + ", the Rpc sent " + what);
        break;
      case K_DEFER_OK: case K_DEFER_ERR:
        if (answering != k) fail(who + ": service deferred its answer, but the Rpc sent " + what + " before respond() was called for it");
        else if (in.kind == K_DEFER_OK ? (rs.is_error || rs.result != in.result) : (!rs.is_error || rs.code != in.errcode))
          fail(who + ": respond() was called with " + (in.kind == K_DEFER_OK ? "result " + dumpJ(in.result) : "errcode " + std::to_string(in.errcode)) + ", the Rpc sent " + what);
        break;
      default:   // deferred and never answered: only "not a result" is required
        if (!rs.is_error) fail(who + ": nobody ever answered this request, but the Rpc sent " + what);
        break;
    }
  }
  bool onService(bool defer, int id, const Json &params, int &errcode, Json &result) {
    if (inc_stack.empty()) { fail(std::string("service ") + (defer ? "svc_defer" : "svc_sync") + " invoked although no peer request was being delivered"); return true; }
    Incoming &in = incs[inc_stack.back()];
    ++in.invoked;
    bool is_defer_kind = in.kind >= K_DEFER_OK;
    if (is_defer_kind != defer || in.kind == K_NOSUCH) fail("peer request for " + in.method + " reached the other service");
    if (id != (in.has_id ? in.id : 0)) fail("service for " + in.method + " invoked with id " + std::to_string(id) + ", the peer sent " + (in.has_id ? std::to_string(in.id) : std::string("a notification")));
    if (params != in.params) fail("service for " + in.method + " invoked with params " + dumpJ(params) + ", the peer sent " + dumpJ(in.params));
    if (defer) return false;
    errcode = in.kind == K_SYNC_ERR ? in.errcode : 0;
    result = in.result;   // (documented: only meaningful when errcode == 0)
    return true;
  }
  int pickPeerId(int idsel) {
    int id;
    int pend = 0, comp = 0;
    for (auto &q : reqs) if (q.issued && q.wire_id != 0) { if (q.done.empty()) { if (!pend) pend = q.wire_id; } else if (!comp) comp = q.wire_id; }
    switch (idsel % 7) {
      case 0: id = max_wire_id + 1; break;                 // the number the Rpc is going to use next
      case 1: id = max_wire_id + 2; break;
      case 2: id = pend ? pend : max_wire_id + 1; break;   // a pending own request
      case 3: id = comp ? comp : max_wire_id + 1; break;   // a completed own request
      case 4: id = 1000 + (int)incs.size(); break;
      case 5: id = INT_MAX - (int)incs.size(); break;
      default: id = -1 - (int)incs.size(); break;
    }
    auto used = [this](int v) { if (v == 0) return true; for (auto &in : incs) if (in.has_id && in.id == v) return true; return false; };
    if (used(id)) { id = max_wire_id + 1; while (used(id)) ++id; }   // the peer never reuses one of ITS ids
    return id;
  }
  void peerRequest(bool has_id, int id, int kind, int pay, uint64_t delay) {
    if (!err.empty() || (int)incs.size() >= kMaxIncoming) return;
    for (auto &in : incs) if (has_id && in.has_id && in.id == id) return;
    incs.emplace_back();
    int k = (int)incs.size() - 1;
    Incoming &in = incs[k];
    in.has_id = has_id; in.id = has_id ? id : 0; in.kind = kind; in.pay = pay; in.t_in = clk.now; in.delay = delay; in.life = life; in.timeout_s = timeout_s;
    in.method = kind == K_NOSUCH ? "nosuch" : kind <= K_SYNC_ERR ? "svc_sync" : "svc_defer";
    in.params = paramsFor(pay, k);
    ++serial;
    in.errcode = -(100 + serial); in.result = Json{{"s", serial}, {"v", paramsFor(serial % 6, serial)}};
    Json js = {{"jsonrpc", "2.0"}, {"method", in.method}};
    if (has_id) js["id"] = in.id;
    if (!in.params.is_null()) js["params"] = in.params;
    if (has_id) for (auto &q : reqs) if (q.issued && q.wire_id == in.id) st_inc_collide = true;
    if (!has_id) st_inc_notify = true;
    else if (kind == K_NOSUCH) st_inc_nosuch = true; else if (kind <= K_SYNC_ERR) st_inc_sync = true; else if (kind == K_DEFER_NEVER) st_inc_never = true;
    std::string frame = frameText(proto_kind, js.dump());
    int d = (int)delivs.size();
    delivs.emplace_back(); delivs[d].incoming = k;
    ctx_stack.push_back(d); inc_stack.push_back(k);
    ssize_t ret = callExact(*proto, frame.data(), frame.size());
    inc_stack.pop_back(); ctx_stack.pop_back();
    if (ret != (ssize_t)frame.size()) { fail("onRecvData returned " + std::to_string(ret) + " for a well-formed request frame of " + std::to_string(frame.size()) + " bytes"); return; }
    Incoming &rec = incs[k];
    std::string who = std::string(has_id ? "peer request id " + std::to_string(rec.id) : std::string("peer notification")) + " (" + rec.method + ")";
    if (kind != K_NOSUCH && rec.invoked != 1) fail(who + ": the registered service was invoked " + std::to_string(rec.invoked) + " times");
    if (!has_id) return;   // (a response frame with id != 0 cannot be attributed to it; id 0 is judged in onSendResponse)
    if (kind <= K_SYNC_ERR && rec.resps.size() != 1) fail(who + ": " + std::to_string(rec.resps.size()) + " responses on the wire when onRecvData returned, expected exactly one");
    if (kind >= K_DEFER_OK && !rec.resps.empty()) fail(who + ": the service deferred its answer, but a response is already on the wire");
  }
  // answers of the deferring service that have become due (called from the top level of a loop pass)
  void flushAnswers() {
    for (size_t k = 0; k < incs.size() && err.empty(); ++k) {
      Incoming &in = incs[k];
      if (!in.has_id || (in.kind != K_DEFER_OK && in.kind != K_DEFER_ERR) || in.answered || clk.now < in.t_in + in.delay) continue;
      in.answered = true; in.t_answer = clk.now;
      in.in_time = clk.now - in.t_in <= (uint64_t)(in.timeout_s - 1) * 1000;   // the respond timeout cannot have passed yet
      (in.in_time ? st_inc_defer_answered : st_inc_defer_late) = true;
      answering = (int)k;
      if (in.kind == K_DEFER_OK) { if (in.pay % 2) rpc->respond(in.id, 0, in.result); else rpc->respond(in.id, in.result); }
      else { if (in.pay % 2) rpc->respond(in.id, in.errcode, Json("must not be sent")); else rpc->respond(in.id, in.errcode); }
      answering = -1;
      if (in.in_time && in.resps.size() != 1)
        fail("peer request id " + std::to_string(in.id) + ": respond() called " + std::to_string(clk.now - in.t_in) + " ms after the request (timeout " + std::to_string(in.timeout_s) +
             " s) put " + std::to_string(in.resps.size()) + " responses on the wire");
    }
  }
  void registerServices() {
    rpc->addService("svc_sync", [this](int id, const Json &params, int &ec, Json &res) { return onService(false, id, params, ec, res); });
    rpc->addService("svc_defer", [this](int id, const Json &params, int &ec, Json &res) { return onService(true, id, params, ec, res); });
  }
  // a new life of the same Rpc object on the same proto (link re-established): cleanup() + initialize(); top level of a loop pass only
  void relife(int new_timeout) {
    if (life + 1 >= kMaxLives || !err.empty()) return;
    for (auto &q : reqs) if (q.issued && q.life == life && q.done.empty()) st_relife_outstanding = true;
    rpc->cleanup();
    if (new_timeout >= 1) timeout_s = new_timeout;
    ++life; life_reqs = 0; st_relife = true;
    rpc->initialize(proto.get(), timeout_s);
    registerServices();   // cleanup() drops the services
    for (auto &in : incs) if (in.has_id && (in.kind == K_DEFER_OK || in.kind == K_DEFER_ERR) && !in.answered) { in.answered = true; in.abandoned = true; }   // respond() for a request of an earlier life: undocumented, not generated
  }
  bool answersOutstanding() const { for (auto &in : incs) if (in.has_id && (in.kind == K_DEFER_OK || in.kind == K_DEFER_ERR) && !in.answered) return true; return false; }
  int pickOther(int sel, int self) const {
    std::vector<int> c; for (size_t i = 0; i < reqs.size(); ++i) if ((int)i != self && reqs[i].issued && reqs[i].wire_id != 0) c.push_back((int)i);
    return c.empty() ? -1 : c[(size_t)sel % c.size()];
  }

  // --------------------------------------------------------------------------------------------- delivery side
  Item mkItem(int target, int64_t wire_id, bool is_error) {
    Item it; it.wire_id = wire_id; it.target = target; it.is_error = is_error; ++serial;
    it.errcode = -(100 + serial);
    it.payload = Json{{"d", serial}, {"v", paramsFor(serial % 6, serial)}};
    return it;
  }
  static Json wireOf(const Item &it) {
    if (it.is_error) return Json{{"jsonrpc", "2.0"}, {"id", it.wire_id}, {"error", {{"code", it.errcode}, {"message", "scripted"}}}};
    return Json{{"jsonrpc", "2.0"}, {"id", it.wire_id}, {"result", it.payload}};
  }
  void deliver(std::vector<Item> items, bool batch) {
    if (!err.empty()) return;
    int d = (int)delivs.size();
    delivs.emplace_back();
    for (auto &it : items) {
      it.pending_at_start = it.target >= 0 && reqs[it.target].done.empty() && reqs[it.target].life == life;
      if (it.target < 0) st_unknown = true;
      else if (reqs[it.target].life != life) {   // the peer's answer to a request of an earlier life
        st_stale = true; if (!reqs[it.target].done.empty()) st_stale_dup = true;
        for (auto &q : reqs) if (q.issued && q.life == life && q.done.empty() && q.ordinal == reqs[it.target].ordinal) st_stale_ordinal = true;
      }
      else if (it.pending_at_start) { st_pending_resp = true; if (it.is_error) st_err_resp = true; }
      else { bool by_timeout = reqs[it.target].done[0].errcode == kTimeoutErr && reqs[it.target].done[0].ctx < 0; if (by_timeout) st_late = true; else st_dup = true; }
    }
    delivs[d].items = items;
    Json js;
    if (batch) { js = Json::array(); for (auto &it : items) js.push_back(wireOf(it)); st_batch = true; } else js = wireOf(items[0]);
    std::string frame = frameText(proto_kind, js.dump());
    ctx_stack.push_back(d);
    ssize_t ret = callExact(*proto, frame.data(), frame.size());
    ctx_stack.pop_back();
    if (ret != (ssize_t)frame.size()) { fail("onRecvData returned " + std::to_string(ret) + " for a well-formed response frame of " + std::to_string(frame.size()) + " bytes"); return; }
    for (auto &it : delivs[d].items)
      if (it.pending_at_start && reqs[it.target].done.empty())
        fail("a response for pending " + nameOf(it.target) + " was delivered but its completion callback did not run");
  }
  void deliverFor(int k, int how, bool top_level) {
    (void)top_level;
    int id = reqs[k].wire_id;
    switch (how) {
      case 0: deliver({mkItem(k, id, false)}, false); break;
      case 1: deliver({mkItem(k, id, true)}, false); break;
      case 2: deliver({mkItem(k, id, false)}, false); deliver({mkItem(k, id, false)}, false); break;
      case 3: { Item a = mkItem(k, id, false); Item b = a; deliver({a, b}, true); break; }
      default: { Item u = mkItem(-1, max_wire_id + 7, false); deliver({u, mkItem(k, id, false)}, true); break; }
    }
  }
  void deliverUnknown(int sel, int how) {
    int64_t id;
    switch (sel % 8) {
      case 0: id = max_wire_id + 1; st_future_id = true; break;
      case 1: id = 0; break;
      case 2: id = -1; break;
      case 3: id = INT_MAX; break;
      case 4: id = max_wire_id + 1000; break;
      default: {   // an id outside the int range that is congruent to an issued id modulo 2^32 (5: pending preferred, 6: completed preferred, 7: negative)
        int pick = -1;
        for (size_t i = 0; i < reqs.size(); ++i) if (reqs[i].issued && reqs[i].wire_id != 0) { if (pick < 0) pick = (int)i; if (reqs[i].done.empty() == (sel % 8 != 6)) { pick = (int)i; break; } }
        if (pick < 0) return;
        id = (int64_t)reqs[pick].wire_id + (sel % 8 == 7 ? -4294967296ll : 4294967296ll);
        st_wide_id = true;
        break; }
    }
    for (auto &q : reqs) if (q.issued && q.wire_id == id) return;   // not unknown after all
    deliver({mkItem(-1, id, how % 2 != 0)}, false);
  }
};

std::string run(const Scenario &s, CaseInfo &info) {
  World w;
  // ---- parse
  struct TopOp { int code; const Op *op; int chain = -1; };
  std::vector<TopOp> tops;
  for (auto &op : s.ops) {
    switch (op.code) {
      case CFG: w.proto_kind = (int)op.in(0, 0, NPROTO - 1); w.timeout_s = (int)direct(op, 1, 1, 5); w.log = op.in(2, 0, 1) != 0; break;
      case REQUEST: { TopOp t{REQUEST, &op, (int)w.chains.size()}; w.chains.emplace_back(); tops.push_back(t); break; }
      case THEN: if (!w.chains.empty() && (int)w.chains.back().size() < kMaxChain && !tops.empty())
                   w.chains.back().push_back(ThenSpec{(int)op.in(0, 0, 1), (int)op.in(1, 0, NSYNC - 1), (int)op.in(2, 0, 63)});
                 break;
      case NOTIFY: case DELIVER: case UNKNOWN: case ADVANCE: case PEERREQ: case PEERNOTIFY: case RELIFE: tops.push_back(TopOp{op.code, &op}); break;
      default: break;
    }
  }
  if (tops.size() > 60) tops.resize(60);
  // a `then` chain belongs to the most recent `request`; make sure later non-request ops do not detach it (they do not: chains.back())
  // ---- set up the real objects
  w.loop.reset(tbox::event::Loop::New());
  std::unique_ptr<TrafficLog> tl;
  if (w.log) tl.reset(new TrafficLog);
  w.proto = mkProto(w.proto_kind);
  if (w.log) TrafficLog::enable(*w.proto, "c14-rpc");
  w.rpc.reset(new tbox::jsonrpc::Rpc(w.loop.get()));
  w.rpc->initialize(w.proto.get(), w.timeout_s);
  w.proto->setSendCallback([&w](const void *p, size_t n) { w.onSend(p, n); });
  w.registerServices();

  // ---- micro steps: one op per loop pass; the clock moves in steps <= 1000 ms, each followed by two idle passes
  struct Step { int kind; int idx; uint64_t ms; };   // 0 = op, 1 = advance, 2 = idle
  std::vector<Step> steps;
  for (size_t i = 0; i < tops.size(); ++i) {
    if (tops[i].code == ADVANCE) {
      uint64_t ms = (uint64_t)direct(*tops[i].op, 0, 1, 7000);
      uint64_t first = ms % 1000;
      if (first) { steps.push_back({1, 0, first}); steps.push_back({2, 0, 0}); steps.push_back({2, 0, 0}); }
      for (uint64_t k = 0; k < ms / 1000; ++k) { steps.push_back({1, 0, 1000}); steps.push_back({2, 0, 0}); steps.push_back({2, 0, 0}); }
    } else steps.push_back({0, (int)i, 0});
  }
  size_t pc = 0; int idle_left = 0; uint64_t drained = 0;
  auto anyPending = [&w]() { for (auto &q : w.reqs) if (q.issued && q.life == w.life && q.done.empty()) return true; return false; };
  auto execOp = [&](const TopOp &t) {
    const Op &op = *t.op;
    switch (t.code) {
      case REQUEST: {
        if ((int)w.reqs.size() >= kMaxReqs) break;
        Req q; q.top = t.chain; q.chain_pos = 0; q.sync = (int)op.in(0, 0, NSYNC - 1); q.sarg = (int)op.in(1, 0, 63); q.pay = (int)op.in(2, 0, 5);
        w.reqs.push_back(q);
        w.issue((int)w.reqs.size() - 1);
        break; }
      case NOTIFY: w.notify((int)op.in(0, 0, 5)); break;
      case DELIVER: {
        std::vector<int> c; for (size_t i = 0; i < w.reqs.size(); ++i) if (w.reqs[i].issued && w.reqs[i].wire_id != 0) c.push_back((int)i);
        if (c.empty()) break;
        int pick = op.arg(0) == -1 ? c.back() : c[(size_t)op.in(0, 0, 1 << 20) % c.size()];   // -1: the most recent request
        if (op.arg(0) == -2) {   // -2: a request of an earlier life, preferably one with the per-life number of a request that is pending now
          pick = -1;
          for (int i : c) if (w.reqs[i].life != w.life) { if (pick < 0) pick = i; for (auto &q : w.reqs) if (q.issued && q.life == w.life && q.done.empty() && q.ordinal == w.reqs[i].ordinal) pick = i; }
          if (pick < 0) pick = c.back();
        }
        w.deliverFor(pick, (int)op.in(1, 0, 4), true);
        break; }
      case PEERREQ: w.peerRequest(true, w.pickPeerId((int)op.in(0, 0, 6)), (int)op.in(1, 0, NKIND - 1), (int)op.in(2, 0, 5), (uint64_t)op.in(3, 0, 7000)); break;
      case RELIFE: w.relife((int)op.in(0, 0, 5)); break;
      case PEERNOTIFY: { static const int kinds[] = {K_NOSUCH, K_SYNC_OK, K_DEFER_NEVER}; w.peerRequest(false, 0, kinds[op.in(0, 0, 2)], (int)op.in(1, 0, 5), 0); break; }
      case UNKNOWN: w.deliverUnknown((int)op.in(0, 0, 7), (int)op.in(1, 0, 1)); break;
      default: break;
    }
  };
  vloop::drive(w.loop.get(), [&](int) -> bool {
    if (!w.err.empty()) return false;
    w.flushAnswers();
    if (!w.err.empty()) return false;
    if (pc < steps.size()) {
      const Step &st = steps[pc++];
      if (st.kind == 0) execOp(tops[st.idx]); else if (st.kind == 1) { w.prev_now = w.clk.now; w.clk.now += st.ms; }
      return true;
    }
    if (idle_left > 0) { --idle_left; return true; }
    if ((anyPending() || w.answersOutstanding()) && drained < 80000) { w.prev_now = w.clk.now; w.clk.now += 500; drained += 500; idle_left = 2; return true; }   // final drain
    return false;
  });
  std::string err = w.err;
  if (err.empty())
    for (size_t k = 0; k < w.reqs.size(); ++k) {
      const Req &q = w.reqs[k];
      if (q.issued && q.life != w.life) continue;   // abandoned at a cleanup(): "at most once, and only the timeout error" is enforced in onDone
      if (q.issued && q.done.size() != 1) { err = w.nameOf((int)k) + ": completion callback ran " + std::to_string(q.done.size()) + " times by the final drain (clock " + std::to_string(w.clk.now - q.t_issue) + " ms past the request, life " + std::to_string(q.life) + ", timeout " + std::to_string(q.timeout_s) + " s)"; break; }
    }
  // shape: a deferred peer request that is not answered before its respond timeout, carrying the id of an own request
  // that was issued >= 1 s later (but before that respond timeout can have passed) and is still pending when it has passed
  bool shape_collision_expiry = false;
  for (auto &in : w.incs) {
    if (!in.has_id || in.kind < K_DEFER_OK) continue;
    uint64_t expiry = in.t_in + (uint64_t)in.timeout_s * 1000;
    if (in.abandoned || (in.answered && in.t_answer < expiry)) continue;
    for (auto &q : w.reqs)
      if (q.issued && q.life == in.life && q.wire_id == in.id && q.t_issue >= in.t_in + 1000 && q.t_issue < expiry && !q.done.empty() && q.done[0].t >= expiry) shape_collision_expiry = true;
  }
  // ---- tear down as the examples do
  w.rpc->cleanup();
  vloop::passes(w.loop.get(), 2);
  w.rpc.reset();
  w.loop->cleanup();
  w.loop.reset();
  w.proto.reset();
  if (!err.empty()) return std::string(kProtoName[w.proto_kind]) + ", timeout " + std::to_string(w.timeout_s) + " s: " + err;

  info.cls(kProtoName[w.proto_kind]);
  info.cls_if(w.log, "traffic_logging_on");
  info.cls_if(w.st_pending_resp, "response_while_pending");
  info.cls_if(w.st_err_resp, "error_response_while_pending");
  info.cls_if(w.st_late, "late_response_after_timeout");
  info.cls_if(w.st_dup, "duplicate_response");
  info.cls_if(w.st_unknown, "unknown_id_response");
  info.cls_if(w.st_future_id, "response_for_not_yet_issued_id");
  info.cls_if(w.st_wide_id, "response_id_outside_int_range_congruent_to_issued_id");
  info.cls_if(w.st_sync, "synchronous_response_inside_request()");
  info.cls_if(w.st_timeout, "timeout_fired");
  info.cls_if(w.st_nested, "request_or_notify_from_completion_callback");
  info.cls_if(w.st_nested_in_timeout, "request_from_timeout_callback");
  info.cls_if(w.st_reentrant_dup, "duplicate_of_completing_request_delivered_inside_its_callback");
  info.cls_if(w.st_other_in_cb, "other_request_completed_inside_a_callback");
  info.cls_if(w.st_batch, "batch_response");
  info.cls_if(w.notifies > 0, "notify");
  info.cls_if(w.st_relife, "rpc_object_reused(cleanup+initialize)");
  info.cls_if(w.st_relife_outstanding, "cleanup_with_requests_outstanding");
  info.cls_if(w.st_stale, "response_of_earlier_life_delivered_in_later_life");
  info.cls_if(w.st_stale_dup, "duplicate_response_of_earlier_life_delivered_in_later_life");
  info.cls_if(w.st_stale_ordinal, "response_of_earlier_life_while_request_with_same_per_life_number_is_pending");
  info.cls_if(w.st_timeout_later_life, "timeout_fired_in_later_life");
  info.cls_if(w.st_resp_later_life, "response_completes_request_in_later_life");
  info.cls_if(!w.incs.empty(), "peer_sends_requests");
  info.cls_if(w.st_inc_nosuch, "peer_request_unregistered_method");
  info.cls_if(w.st_inc_sync, "peer_request_answered_synchronously");
  info.cls_if(w.st_inc_defer_answered, "peer_request_deferred_answered_in_time");
  info.cls_if(w.st_inc_defer_late, "peer_request_deferred_answered_after_respond_timeout");
  info.cls_if(w.st_inc_never, "peer_request_deferred_never_answered");
  info.cls_if(w.st_inc_notify, "peer_notification");
  info.cls_if(w.st_notif_nosuch_answered, "peer_notification_unregistered_method_answered_with_id0(left_free)");
  info.cls_if(w.st_inc_in_send, "peer_request_sent_from_inside_request()");
  info.cls_if(w.st_inc_collide, "peer_request_id_equals_an_issued_own_id");
  info.cls_if(shape_collision_expiry, "peer_deferred_request_expires_while_later_own_request_with_same_id_is_pending");
  info.cls_if(w.reqs.size() >= 5, "requests>=5");
  info.nontrivial = w.st_late && w.st_nested;
  return "";
}

#ifndef VERIF_ENGINE_FUZZ
Scenario expand(uint64_t seed) {
  Rng r(seed);
  Scenario sc; auto &v = sc.ops;
  auto mk = [&v](int code, std::vector<int64_t> a) { Op o; o.code = code; o.a = std::move(a); v.push_back(std::move(o)); };
  bool collide = r.chance(1, 3);   // a third of the cases contain the id-collision pattern below (needs timeout >= 2 s to be observable)
  int timeout = collide ? (int)r.pick({{4, 2}, {3, 3}, {1, 5}}) : (int)r.pick({{3, 1}, {3, 2}, {2, 3}, {1, 5}});
  mk(CFG, {r.rng(0, 2), timeout, r.pick({{2, 0}, {1, 1}})});
  int n = (int)r.pick({{1, 2}, {3, 6}, {3, 12}, {2, 24}});
  auto sync = [&]() { return r.pick({{16, SY_NONE}, {4, SY_RESULT}, {2, SY_ERROR}, {2, SY_TWICE}, {4, SY_OTHER}, {2, SY_UNKNOWN}, {4, SY_PARENT}, {1, SY_PEERREQ}}); };
  // (half of them right at the start: later on, nested requests issued by timeout callbacks during the wait often take the id first)
  int collide_at = collide ? (r.chance(1, 2) ? 0 : (int)r.rng(0, n - 1)) : -1;
  // a quarter of the cases: the Rpc object is re-used (cleanup + initialize) while requests are outstanding, and the peer's answers to
  // requests of the earlier life arrive while requests with the same per-life number are pending in the new life
  bool relife = r.chance(1, 4);
  int relife_at = relife ? (r.chance(1, 2) ? (collide_at == 0 ? 1 : 0) : (int)r.rng(0, n - 1)) : -1;
  if (relife_at == collide_at) relife_at = -1;
  for (int i = 0; i < n; ++i) {
    if (i == relife_at) {
      int k = (int)r.pick({{3, 1}, {2, 2}, {1, 3}});
      for (int j = 0; j < k; ++j) mk(REQUEST, {r.pick({{5, SY_NONE}, {1, SY_RESULT}}), r.rng(0, 63), r.rng(0, 5)});
      if (r.chance(1, 3)) mk(ADVANCE, {r.rng(1, 900)});
      if (r.chance(1, 4)) mk(DELIVER, {r.rng(0, 1000), 0, 0});   // some of them answered in time: their late copies are duplicates
      mk(RELIFE, {r.pick({{2, 0}, {1, 1}, {1, 2}, {1, 3}})});
      int k2 = (int)r.rng(1, k);
      for (int j = 0; j < k2; ++j) mk(REQUEST, {SY_NONE, r.rng(0, 63), r.rng(0, 5)});
      int nd = (int)r.rng(1, 3);
      for (int j = 0; j < nd; ++j) mk(DELIVER, {r.pick({{3, -2}, {1, r.rng(0, 1000)}}), r.pick({{4, 0}, {1, 1}, {1, 3}}), 0});
      if (r.chance(2, 3)) mk(DELIVER, {-1, r.pick({{3, 0}, {1, 1}}), 0});   // the new request's own answer
      continue;
    }
    if (i == collide_at) {
      // the peer sends a request that is deferred (never / too late answered) under the id the Rpc will use next; the own request
      // follows 1 .. timeout-0.1 s later and is still unanswered when the peer request's respond timeout passes; then its response arrives
      int64_t kind = r.pick({{3, K_DEFER_NEVER}, {1, K_DEFER_OK}, {1, K_DEFER_ERR}});
      mk(PEERREQ, {r.pick({{5, 0}, {1, 2}, {1, 1}}), kind, r.rng(0, 5), timeout * 1000 + r.rng(0, 1500)});
      int64_t a = r.rng(10, timeout * 10 - 1) * 100;
      mk(ADVANCE, {a});
      mk(REQUEST, {SY_NONE, r.rng(0, 63), r.rng(0, 5)});
      mk(ADVANCE, {timeout * 1000 - a + r.pick({{2, 0}, {1, 100}, {1, 600}})});
      if (r.chance(3, 4)) mk(DELIVER, {-1, r.pick({{3, 0}, {1, 1}}), 0});
      continue;
    }
    switch (r.pick({{12, REQUEST}, {2, NOTIFY}, {10, DELIVER}, {2, UNKNOWN}, {10, ADVANCE}, {5, PEERREQ}, {1, PEERNOTIFY}, {1, RELIFE}})) {
      case REQUEST: {
        mk(REQUEST, {sync(), r.rng(0, 63), r.rng(0, 5)});
        int nt = (int)r.pick({{5, 0}, {3, 1}, {2, 2}, {1, 4}});
        for (int k = 0; k < nt; ++k) mk(THEN, {r.pick({{5, 0}, {1, 1}}), sync(), r.rng(0, 63)});
        break; }
      case NOTIFY: mk(NOTIFY, {r.rng(0, 5)}); break;
      case DELIVER: mk(DELIVER, {r.rng(0, 1000), r.pick({{5, 0}, {2, 1}, {1, 2}, {1, 3}, {1, 4}}), 0}); break;
      case UNKNOWN: mk(UNKNOWN, {r.rng(0, 7), r.rng(0, 1)}); break;
      case PEERREQ: mk(PEERREQ, {r.pick({{4, 0}, {2, 1}, {3, 2}, {2, 3}, {1, 4}, {1, 5}, {1, 6}}), r.rng(0, NKIND - 1),
                                 r.rng(0, 5), r.pick({{2, 0}, {3, r.rng(0, (timeout - 1) * 1000)}, {1, timeout * 1000 + r.rng(-1000, 1000)}, {1, r.rng(0, 7000)}})}); break;
      case PEERNOTIFY: mk(PEERNOTIFY, {r.rng(0, 2), r.rng(0, 5)}); break;
      case RELIFE: mk(RELIFE, {r.pick({{2, 0}, {1, r.rng(1, 5)}})}); break;
      default: mk(ADVANCE, {r.pick({{2, r.rng(1, 999)}, {2, 1000}, {2, timeout * 1000 - 1000 + r.rng(-1, 1)}, {2, timeout * 1000 + r.rng(-1, 1)}, {1, r.rng(1, 7000)}})}); break;
    }
  }
  return sc;
}
#endif

SubDef def = [] {
  SubDef d; d.name = "rpc_once";
  d.op_names = {"cfg", "request", "then", "notify", "deliver", "unknown", "advance", "peerreq", "peernotify", "relife"};
  d.op_arity = {3, 3, 3, 1, 3, 2, 1, 4, 2, 1};
  d.nt_rule = "a response was delivered for a request that had already completed with the timeout error, and a completion callback issued a further request or notification";
  d.run = run;
#ifndef VERIF_ENGINE_FUZZ
  d.gen = [] { return seedGen(expand); };
#endif
  return d;
}();
VERIF_REGISTER(&def);
}  // namespace
