// C14 — helpers shared by the three JSON-RPC harnesses (framing.cpp, roundtrip.cpp, rpc_once.cpp).
//
// Only public headers of the jsonrpc module are used: the three protos (constructed and driven exactly as
// examples/jsonrpc does: a caller-owned receive buffer, `while readable: ret = onRecvData(buf); ret > 0 ->
// consume; ret < 0 -> stop; 0 -> wait for more`) and Rpc.
#pragma once
#include <nlohmann/json.hpp>   // must come first (clang + util/variables.h, see HARNESS-GUIDE)
#include "../common/verif.h"
#include <tbox/base/json.hpp>
#include <tbox/base/log_impl.h>
#include <tbox/jsonrpc/proto.h>
#include <tbox/jsonrpc/protos/header_stream_proto.h>
#include <tbox/jsonrpc/protos/raw_stream_proto.h>
#include <tbox/jsonrpc/protos/packet_proto.h>
#include <memory>
#include <climits>

namespace c14 {

using tbox::Json;
using tbox::jsonrpc::Proto;

enum { P_HEADER = 0, P_RAW = 1, P_PACKET = 2, NPROTO = 3 };
static const char *const kProtoName[] = {"header-stream", "raw-stream", "packet"};
static const uint16_t kMagic = 0x53ea;   // the value the in-tree unit tests use

inline std::unique_ptr<Proto> mkProto(int p) {
  switch (p) {
    case P_HEADER: return std::unique_ptr<Proto>(new tbox::jsonrpc::HeaderStreamProto(kMagic));
    case P_RAW: return std::unique_ptr<Proto>(new tbox::jsonrpc::RawStreamProto);
    default: return std::unique_ptr<Proto>(new tbox::jsonrpc::PacketProto);
  }
}

// 6-byte header of the header-stream framing as its documentation draws it: magic(2) + length(4), big endian.
inline std::string header(uint16_t magic, uint32_t len) {
  std::string h(6, 0);
  h[0] = (char)(magic >> 8); h[1] = (char)magic;
  h[2] = (char)(len >> 24); h[3] = (char)(len >> 16); h[4] = (char)(len >> 8); h[5] = (char)len;
  return h;
}
// frame a JSON text the way a peer of proto p would
inline std::string frameText(int p, const std::string &text) { return p == P_HEADER ? header(kMagic, (uint32_t)text.size()) + text : text; }

// Traffic logging: Proto::setLogEnable(true) makes every proto write one LogTrace line per frame sent / received — but the log front
// end formats a line only while at least one output channel is registered.  TrafficLog registers a channel for the life of the object
// that swallows the lines (it reads every byte of the text, so a bad text pointer / length is an ASan report, and counts them).
struct TrafficLog {
  uint32_t id = 0; uint64_t lines = 0, bytes = 0; unsigned sum = 0;
  TrafficLog() { id = LogAddPrintfFunc(&TrafficLog::sink, this); }
  ~TrafficLog() { LogRemovePrintfFunc(id); }
  TrafficLog(const TrafficLog &) = delete;
  static void sink(const LogContent *c, void *p) {
    TrafficLog *t = static_cast<TrafficLog *>(p);
    ++t->lines; t->bytes += c->text_len;
    for (uint32_t i = 0; c->text_ptr && i < c->text_len; ++i) t->sum += (unsigned char)c->text_ptr[i];
  }
  static void enable(Proto &p, const char *label) { p.setLogEnable(true); p.setLogLabel(label); }
};

// ---------------------------------------------------------------------------------------------- decoded events
struct Ev {
  int kind = 0;            // 0 = request callback, 1 = respond callback
  int id = 0;
  std::string method;      // requests
  int errcode = 0;         // responses
  Json payload;            // params / result (a copy, unless the recorder runs in shallow mode)
  int ptype = 0;           // payload.type() (kept in shallow mode too)
};
inline bool sameEv(const Ev &a, const Ev &b, bool shallow) {
  if (a.kind != b.kind || a.id != b.id || a.method != b.method || a.errcode != b.errcode) return false;
  return shallow ? a.ptype == b.ptype : a.payload == b.payload;   // (0 and 0u have different type() but are equal JSON values)
}
inline std::string clip(const std::string &s, size_t n = 160) { return s.size() <= n ? s : s.substr(0, n) + "...(" + std::to_string(s.size()) + " bytes)"; }
inline std::string dumpJ(const Json &j) { return clip(j.dump(-1, ' ', true, Json::error_handler_t::replace)); }
inline std::string showEv(const Ev &e, bool shallow = false) {
  std::string pl = shallow ? std::string("<type ") + std::to_string(e.ptype) + ">" : dumpJ(e.payload);
  if (e.kind == 0) return "request(id=" + std::to_string(e.id) + ", method=" + verif::json_escape(clip(e.method, 60)) + ", params=" + pl + ")";
  return "respond(id=" + std::to_string(e.id) + ", errcode=" + std::to_string(e.errcode) + ", result=" + pl + ")";
}

struct Recorder {
  std::vector<Ev> evs;
  bool shallow = false;    // do not copy payloads (extreme inputs: copying a 10^5-deep value recurses in the HARNESS)
  void attach(Proto &p) {
    p.setRecvCallback(
      [this](int id, const std::string &m, const Json &params) {
        Ev e; e.kind = 0; e.id = id; e.method = m; e.ptype = (int)params.type(); if (!shallow) e.payload = params; evs.push_back(std::move(e)); },
      [this](int id, int errcode, const Json &result) {
        Ev e; e.kind = 1; e.id = id; e.errcode = errcode; e.ptype = (int)result.type(); if (!shallow) e.payload = result; evs.push_back(std::move(e)); });
  }
};

// first difference of two event sequences ("" = equal)
inline std::string diffEvs(const std::vector<Ev> &exp, const std::vector<Ev> &got, bool shallow = false) {
  size_t n = std::min(exp.size(), got.size());
  for (size_t i = 0; i < n; ++i)
    if (!sameEv(exp[i], got[i], shallow)) return "event " + std::to_string(i) + ": expected " + showEv(exp[i], shallow) + ", got " + showEv(got[i], shallow);
  if (exp.size() != got.size())
    return "expected " + std::to_string(exp.size()) + " events, got " + std::to_string(got.size()) + "; first unmatched: " +
           (exp.size() > n ? "(missing) " + showEv(exp[n], shallow) : "(extra) " + showEv(got[n], shallow));
  return "";
}

// independent decoder of one encoder output
inline std::string decodeChunk(int proto, const std::string &chunk, Json &out, std::string &text) {
  text = chunk;
  if (proto == P_HEADER) {
    if (chunk.size() < 6) return "shorter than the 6-byte header";
    const unsigned char *p = (const unsigned char *)chunk.data();
    if ((p[0] << 8 | p[1]) != kMagic) return "magic bytes are not the head code given to the constructor";
    uint64_t len = ((uint64_t)p[2] << 24) | ((uint64_t)p[3] << 16) | ((uint64_t)p[4] << 8) | p[5];
    if (len != chunk.size() - 6) return "length field " + std::to_string(len) + " but " + std::to_string(chunk.size() - 6) + " bytes of text follow";
    text = chunk.substr(6);
  }
  try { out = Json::parse(text); } catch (const std::exception &e) { return std::string("text is not valid JSON (") + e.what() + "): " + verif::json_escape(clip(text)); }
  return "";
}

// ------------------------------------------------------------------------------------------------ the driver loop
struct FeedResult {
  std::string err;          // violation of the totality rules (ret > size, ...)
  int status = 0;           // 0 = all segments fed, waiting for more; -1 = a call returned < 0 (stream protos: stop)
  ssize_t neg_ret = 0;
  size_t leftover = 0;      // unconsumed bytes at the end (stream protos)
  std::string left;         // the unconsumed bytes (only kept if <= 64)
  size_t calls = 0, frames = 0, errors = 0, waits = 0;
};

// One call with an exact-size heap copy of the readable bytes, so that any over-read is an ASan report.
inline ssize_t callExact(Proto &proto, const char *p, size_t n) {
  std::unique_ptr<char[]> exact(new char[n ? n : 1]);
  memcpy(exact.get(), p, n);
  return proto.onRecvData(exact.get(), n);
}

// Stream protos: `cuts` are ascending offsets into `stream`; the receive buffer is owned by the caller as in the
// examples.  Packet proto: every segment is one datagram, an error return only affects that datagram.
inline FeedResult feed(Proto &proto, int ptype, const std::string &stream, const std::vector<size_t> &cuts) {
  FeedResult r;
  std::string buf;
  size_t at = 0;
  for (size_t k = 0; k <= cuts.size(); ++k) {
    size_t end = k < cuts.size() ? std::min(cuts[k], stream.size()) : stream.size();
    if (end < at) end = at;
    if (end == at && k < cuts.size()) continue;   // empty segment: a transport never reports 0 bytes
    if (ptype == P_PACKET) {
      if (end == at) continue;
      ssize_t ret = callExact(proto, stream.data() + at, end - at); ++r.calls;
      if (ret > (ssize_t)(end - at)) { r.err = "onRecvData returned " + std::to_string(ret) + " for a datagram of " + std::to_string(end - at) + " bytes"; return r; }
      if (ret > 0) ++r.frames; else if (ret < 0) { ++r.errors; r.status = -1; r.neg_ret = ret; } else ++r.waits;
      at = end;
      continue;
    }
    buf.append(stream, at, end - at); at = end;
    while (!buf.empty()) {
      ssize_t ret = callExact(proto, buf.data(), buf.size()); ++r.calls;
      if (ret > (ssize_t)buf.size()) { r.err = "onRecvData returned " + std::to_string(ret) + " with only " + std::to_string(buf.size()) + " readable bytes"; return r; }
      if (ret > 0) { buf.erase(0, (size_t)ret); ++r.frames; }
      else if (ret < 0) { r.status = -1; r.neg_ret = ret; ++r.errors; r.leftover = buf.size(); return r; }   // the examples drop the connection
      else { ++r.waits; break; }
    }
  }
  r.leftover = buf.size();
  if (buf.size() <= 64) r.left = buf;
  return r;
}

inline std::vector<size_t> everyByte(size_t n) { std::vector<size_t> c; for (size_t i = 1; i < n; ++i) c.push_back(i); return c; }

// splitmix64 stream used by the seed-expanding generators
struct Rng {
  uint64_t st;
  explicit Rng(uint64_t seed) : st(seed * 0x9E3779B97F4A7C15ull + 0x1234567ull) {}
  uint64_t next() { uint64_t z = (st += 0x9E3779B97F4A7C15ull); z = (z ^ (z >> 30)) * 0xBF58476D1CE4E5B9ull; z = (z ^ (z >> 27)) * 0x94D049BB133111EBull; return z ^ (z >> 31); }
  int64_t rng(int64_t lo, int64_t hi) { return lo + (int64_t)(next() % (uint64_t)(hi - lo + 1)); }
  bool chance(int num, int den) { return rng(0, den - 1) < num; }
  int64_t pick(std::initializer_list<std::pair<int, int64_t>> w) {
    int total = 0; for (auto &p : w) total += p.first;
    int64_t x = rng(0, total - 1);
    for (auto &p : w) { if (x < p.first) return p.second; x -= p.first; }
    return 0;
  }
};

#ifndef VERIF_ENGINE_FUZZ
// rapidcheck generator: ONE 62-bit number expanded deterministically (hundreds of rapidcheck picks per case cost
// milliseconds under ASan), shrinking on the op list itself (every op list is a valid scenario).
inline rc::Gen<verif::Scenario> seedGen(std::function<verif::Scenario(uint64_t)> expand) {
  auto base = rc::gen::map(rc::gen::noShrink(verif::range(0, (int64_t)1 << 62)), [expand](int64_t s) { return expand((uint64_t)s); });
  return rc::gen::shrink(base, [](const verif::Scenario &s) {
    std::vector<verif::Scenario> out;
    size_t n = s.ops.size();
    for (size_t chunk = n / 2; chunk >= 1; chunk /= 2) {
      for (size_t at = 0; at + chunk <= n; at += chunk) {
        verif::Scenario t; t.ops.reserve(n - chunk);
        for (size_t i = 0; i < n; ++i) if (i < at || i >= at + chunk) t.ops.push_back(s.ops[i]);
        out.push_back(std::move(t));
      }
      if (chunk == 1) break;
    }
    for (size_t i = 0; i < n; ++i) {
      // drop trailing arguments of variable-arity ops, then zero / halve single arguments
      if (s.ops[i].a.size() > 1) { verif::Scenario t = s; t.ops[i].a.pop_back(); out.push_back(std::move(t)); }
      for (size_t k = 0; k < s.ops[i].a.size(); ++k)
        if (s.ops[i].a[k] != 0) {
          verif::Scenario t = s; t.ops[i].a[k] = 0; out.push_back(std::move(t));
          if (s.ops[i].a[k] > 3 || s.ops[i].a[k] < -3) { verif::Scenario u = s; u.ops[i].a[k] /= 2; out.push_back(std::move(u)); }
        }
    }
    return rc::seq::fromContainer(std::move(out));
  });
}
#endif

}  // namespace c14
