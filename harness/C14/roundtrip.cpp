// C14 (b) — round trip and segmentation independence of the three jsonrpc framings.
//
// A scenario is a list of JSON-RPC messages (requests with / without id and params, results, errors, optionally
// grouped into batch arrays) whose params / results are generated JSON values, plus a list of cut positions.
// Every message is encoded BY THE PROTO'S OWN sendRequest / sendResult / sendError through the send callback;
// the encoder outputs are concatenated (raw-stream: optionally separated by white space) and fed back through
// onRecvData() of a fresh proto of the same kind with the driver loop of the in-tree examples.
// Oracle:
//   1. every encoder output, read by an independent decoder (documented 6-byte header + nlohmann parse), is
//      the JSON-RPC 2.0 object for the call that was made (equal JSON value);
//   2. the callback sequence (kind, id, method, params | errcode, result) equals the sent sequence for the
//      unsegmented stream, for the generated cuts, for one-frame-per-segment and (streams <= 3000 bytes) for
//      byte-by-byte delivery; no call returns < 0 or more than it was given; nothing but separator white
//      space stays unconsumed.
//   3. statelessness: one decoder object is first given the longest frame without its last byte (connection dropped mid-message),
//      then every frame alone on a connection of its own, shortest first: each decodes to exactly its own messages.
//   (packet proto: one datagram per message; "segmentation" is whole-message delivery only.)
// Domain: strings are valid UTF-8 (nlohmann's dump() refuses anything else by design), numbers are finite,
// nesting depth <= 6, ids are ints.
#define VERIF_MAIN
#include "common.h"

using namespace verif;
using namespace c14;

namespace {

enum { CFG, REQUEST, NOTIFY, RESULT, ERROR_, METH, VNULL, VBOOL, VINT, VUINT, VDBL, VSTR, VARR, VOBJ, VKEY, BATCH, CUT, NOPS };

// string pieces: quotes, backslashes, brackets, braces, control characters, NUL, non-ASCII UTF-8 of every length
const std::string kPieces[] = {
  "\"", "\\", "\\\"", "\\\\", "{", "}", "[", "]", "\n", "\t", "\x01", "\x1f", "\x7f", "\xc3\xa9", "\xe4\xb8\xad", "\xf0\x9f\x98\x80",
  "a", "Z", " ", ":", ",", "/", "\\u0041", std::string(1, '\0'), "}]\"", "\\\\\"", "\xef\xbf\xbf", "\xf4\x8f\xbf\xbf", "\xc2\x80", "\"}{\"",
  "[[", "]]", "{\"", "\":", "\r", "\b", "\f", "method", "jsonrpc", "0",
};
const int kNPieces = sizeof kPieces / sizeof kPieces[0];
const double kDoubles[] = {0.0, -0.0, 0.1, -1.5, 1e308, -1e308, 5e-324, 2147483648.0, 1e-7, 3.141592653589793, 1.7976931348623157e308, 123456789012345680.0};
const int kNDoubles = sizeof kDoubles / sizeof kDoubles[0];
const char *const kSeps[] = {"", "\n", " \t\r\n", "  "};

int asInt32(int64_t v) { return (v >= INT_MIN && v <= INT_MAX) ? (int)v : (int)(int32_t)(uint32_t)(uint64_t)v; }
std::string piecesOf(const Op &op) { std::string s; for (size_t i = 0; i < op.a.size() && i < 64; ++i) s += kPieces[op.in(i, 0, kNPieces - 1)]; return s; }

struct Msg {
  int kind = REQUEST; int id = 0; int code = 0; bool hasmsg = false;
  std::string text;            // method name / error message
  std::vector<const Op*> toks; // value ops that follow
  Json payload; bool has_payload = false;
  int batch = -1;              // index of the batch group, -1 = stand-alone
};

struct VParse {
  const std::vector<const Op*> &t; size_t pos = 0; int maxdepth = 0; bool tricky = false, edge_int = false, nonascii = false, ctrl = false;
  explicit VParse(const std::vector<const Op*> &tt) : t(tt) {}
  void noteStr(const std::string &s) {
    for (unsigned char c : s) { if (c == '"' || c == '\\' || c == '{' || c == '}' || c == '[' || c == ']') tricky = true; if (c >= 0x80) nonascii = true; if (c < 0x20) ctrl = true; }
  }
  bool value(Json &out, int depth) {
    while (pos < t.size() && t[pos]->code == VKEY) ++pos;   // a stray key
    if (pos >= t.size()) return false;
    const Op &op = *t[pos++];
    if (depth > maxdepth) maxdepth = depth;
    switch (op.code) {
      case VNULL: out = Json(); break;
      case VBOOL: out = Json(op.in(0, 0, 1) != 0); break;
      case VINT: { int64_t v = op.arg(0); out = Json(v); if (v >= 2147483647ll || v <= -2147483648ll) edge_int = true; break; }
      case VUINT: out = Json((uint64_t)op.arg(0)); edge_int = true; break;
      case VDBL: out = Json(kDoubles[op.in(0, 0, kNDoubles - 1)]); break;
      case VSTR: { std::string s = piecesOf(op); noteStr(s); out = Json(s); break; }
      case VARR: {
        out = Json::array();
        int n = depth >= 6 ? 0 : (int)op.in(0, 0, 8);
        for (int i = 0; i < n; ++i) { Json c; if (!value(c, depth + 1)) break; out.push_back(std::move(c)); }
        break; }
      case VOBJ: {
        out = Json::object();
        int n = depth >= 6 ? 0 : (int)op.in(0, 0, 8);
        for (int i = 0; i < n; ++i) {
          std::string key = "k" + std::to_string(i);
          if (pos < t.size() && t[pos]->code == VKEY) { key = piecesOf(*t[pos]); noteStr(key); ++pos; }
          Json c; if (!value(c, depth + 1)) break;
          out[key] = std::move(c);
        }
        break; }
      default: out = Json(); break;
    }
    return true;
  }
};

// string literals of a JSON text that contain a bracket / brace or an escaped quote: [begin, end) offsets of the
// characters strictly between the quotes
void trickySpans(const std::string &text, size_t base, std::vector<std::pair<size_t, size_t>> &out) {
  bool in = false, esc = false, tricky = false; size_t start = 0;
  for (size_t i = 0; i < text.size(); ++i) {
    char c = text[i];
    if (!in) { if (c == '"') { in = true; start = i + 1; tricky = false; } continue; }
    if (esc) { esc = false; if (c == '"') tricky = true; continue; }
    if (c == '\\') { esc = true; continue; }
    if (c == '"') { in = false; if (tricky && i > start) out.push_back({base + start, base + i}); continue; }
    if (c == '{' || c == '}' || c == '[' || c == ']') tricky = true;
  }
}

std::string run(const Scenario &s, CaseInfo &info) {
  int proto = P_RAW, sep = 0; bool log = false;
  std::vector<Msg> msgs;
  std::vector<const Op*> cutops;
  int nbatch = 0, batch_left = 0;
  for (auto &op : s.ops) {
    switch (op.code) {
      case CFG: proto = (int)op.in(0, 0, NPROTO - 1); sep = (int)op.in(1, 0, 3); log = op.in(2, 0, 1) != 0; break;   // log: traffic logging on for encoder and decoders
      case REQUEST: case NOTIFY: case RESULT: case ERROR_: {
        if (msgs.size() >= 12) break;
        Msg m; m.kind = op.code;
        if (op.code == REQUEST || op.code == RESULT || op.code == ERROR_) m.id = asInt32(op.arg(0));
        if (op.code == ERROR_) { m.code = asInt32(op.arg(1)); m.hasmsg = op.in(2, 0, 1) != 0; }
        if (op.code == REQUEST || op.code == NOTIFY) m.text = "m";
        if (batch_left > 0) { m.batch = nbatch - 1; --batch_left; }
        msgs.push_back(std::move(m));
        break; }
      case METH: if (!msgs.empty()) msgs.back().text = piecesOf(op); break;
      case BATCH: batch_left = (int)op.in(0, 0, 5); ++nbatch; break;
      case CUT: cutops.push_back(&op); break;
      case VNULL: case VBOOL: case VINT: case VUINT: case VDBL: case VSTR: case VARR: case VOBJ: case VKEY:
        if (!msgs.empty()) msgs.back().toks.push_back(&op);
        break;
      default: break;
    }
  }
  if (proto != P_RAW) sep = 0;
  bool tricky_payload = false, edge_int = false, nonascii = false, ctrl = false, tricky_method = false; int maxdepth = 0;
  for (auto &m : msgs) {
    VParse vp(m.toks);
    if (m.kind != ERROR_) m.has_payload = vp.value(m.payload, 1);
    tricky_payload |= vp.tricky; edge_int |= vp.edge_int; nonascii |= vp.nonascii; ctrl |= vp.ctrl; if (vp.maxdepth > maxdepth) maxdepth = vp.maxdepth;
    VParse tmp(m.toks); tmp.noteStr(m.text); if ((m.kind == REQUEST || m.kind == NOTIFY) && tmp.tricky) tricky_method = true;
    nonascii |= tmp.nonascii; ctrl |= tmp.ctrl;
  }

  // ---- encode with the proto's own encoder
  std::unique_ptr<TrafficLog> tl;
  if (log) tl.reset(new TrafficLog);   // a registered log channel for the whole case; each proto below gets setLogEnable(true)
  auto enc = mkProto(proto);
  if (log) TrafficLog::enable(*enc, "c14-enc");
  std::string chunk; int chunks = 0;
  enc->setSendCallback([&](const void *p, size_t n) { chunk.append((const char *)p, n); ++chunks; });
  std::vector<Ev> expected;
  std::vector<std::string> texts, frames_raw;   // per message: JSON text, encoder output
  for (size_t i = 0; i < msgs.size(); ++i) {
    Msg &m = msgs[i];
    chunk.clear(); chunks = 0;
    Json want = {{"jsonrpc", "2.0"}};
    Ev e;
    switch (m.kind) {
      case REQUEST: case NOTIFY: {
        int id = m.kind == NOTIFY ? 0 : m.id;
        if (m.has_payload) enc->sendRequest(id, m.text, m.payload); else enc->sendRequest(id, m.text);
        want["method"] = m.text; if (id != 0) want["id"] = id; if (m.has_payload && !m.payload.is_null()) want["params"] = m.payload;
        e.kind = 0; e.id = id; e.method = m.text; e.payload = m.has_payload ? m.payload : Json();
        break; }
      case RESULT:
        enc->sendResult(m.id, m.has_payload ? m.payload : Json());
        want["id"] = m.id; want["result"] = m.has_payload ? m.payload : Json();
        e.kind = 1; e.id = m.id; e.errcode = 0; e.payload = m.has_payload ? m.payload : Json();
        break;
      default:
        if (m.hasmsg) enc->sendError(m.id, m.code, m.text.empty() ? "e" : m.text); else enc->sendError(m.id, m.code);
        want["id"] = m.id; want["error"] = {{"code", m.code}};
        if (m.hasmsg) want["error"]["message"] = m.text.empty() ? "e" : m.text;
        e.kind = 1; e.id = m.id; e.errcode = m.code;
        break;
    }
    e.ptype = (int)e.payload.type();
    std::string who = "message " + std::to_string(i) + " (" + showEv(e) + ")";
    if (chunks == 0) return who + ": the encoder did not call the send callback";
    Json got; std::string text;
    std::string derr = decodeChunk(proto, chunk, got, text);
    if (!derr.empty()) return who + ": encoder output " + derr;
    if (got != want) return who + ": encoder output decodes to " + dumpJ(got) + ", expected " + dumpJ(want);
    expected.push_back(std::move(e));
    texts.push_back(text); frames_raw.push_back(chunk);
  }

  // ---- assemble the stream: stand-alone messages use the encoder output verbatim, a batch group is the JSON array
  // of its members' texts framed the way a peer would
  std::string stream; std::vector<size_t> bounds; std::vector<std::pair<size_t, size_t>> spans; std::vector<size_t> hdr_at;
  bool any_batch = false;
  for (size_t i = 0; i < msgs.size();) {
    std::string frame, text;
    if (msgs[i].batch < 0) { frame = frames_raw[i]; text = texts[i]; ++i; }
    else {
      int g = msgs[i].batch; text = "[";
      bool first = true;
      while (i < msgs.size() && msgs[i].batch == g) { if (!first) text += ","; first = false; text += texts[i]; ++i; }
      text += "]"; frame = frameText(proto, text); any_batch = true;
    }
    if (proto == P_HEADER) hdr_at.push_back(stream.size());
    trickySpans(text, stream.size() + (frame.size() - text.size()), spans);
    stream += frame;
    bounds.push_back(stream.size());
    stream += kSeps[sep];
  }

  // ---- cuts
  std::vector<size_t> cuts; bool cut_in_tricky = false, cut_in_header = false;
  for (auto op : cutops) {
    if (cuts.size() >= 16 || stream.empty()) break;
    int mode = (int)op->in(0, 0, 3); size_t c;
    if (mode == 1 && !spans.empty()) { auto &sp = spans[op->in(1, 0, (int64_t)spans.size() - 1)]; c = sp.first + (size_t)op->in(2, 0, (int64_t)(sp.second - sp.first)); }
    else if (mode == 2 && !bounds.empty()) { c = bounds[op->in(1, 0, (int64_t)bounds.size() - 1)] + (size_t)op->in(2, 0, 2); if (c > 0) --c; }
    else if (mode == 3 && !hdr_at.empty()) c = hdr_at[op->in(1, 0, (int64_t)hdr_at.size() - 1)] + (size_t)op->in(2, 1, 5);
    else c = (size_t)op->in(1, 0, (int64_t)stream.size());
    if (c == 0 || c >= stream.size()) continue;
    cuts.push_back(c);
  }
  std::sort(cuts.begin(), cuts.end()); cuts.erase(std::unique(cuts.begin(), cuts.end()), cuts.end());
  for (auto c : cuts) {
    for (auto &sp : spans) if (c >= sp.first && c <= sp.second) cut_in_tricky = true;   // between the opening and the closing quote
    for (auto h : hdr_at) if (c > h && c < h + 6) cut_in_header = true;
  }

  // ---- decode
  auto decodeRun = [&](const char *what, const std::vector<size_t> &cs) -> std::string {
    auto dec = mkProto(proto);
    if (log) TrafficLog::enable(*dec, "c14-dec");
    Recorder rec; rec.attach(*dec);
    dec->setSendCallback([](const void *, size_t) {});
    FeedResult fr = feed(*dec, proto, stream, cs);
    std::string pre = std::string(kProtoName[proto]) + ", " + what + ": ";
    if (!fr.err.empty()) return pre + fr.err;
    std::string d = diffEvs(expected, rec.evs);
    if (fr.status != 0) return pre + "onRecvData returned " + std::to_string(fr.neg_ret) + " on a stream written by the proto's own encoder" + (d.empty() ? "" : " (" + d + ")");
    if (!d.empty()) return pre + d;
    if (proto != P_PACKET) {
      if (fr.leftover > strlen(kSeps[sep]) || fr.left.find_first_not_of(" \t\r\n") != std::string::npos)
        return pre + std::to_string(fr.leftover) + " bytes left unconsumed at the end of the stream";
    }
    return "";
  };
  std::string e;
  if (proto == P_PACKET) {
    if (!(e = decodeRun("one datagram per message", bounds)).empty()) return e;
  } else {
    if (!(e = decodeRun("unsegmented", {})).empty()) return e;
    if (!cuts.empty() && !(e = decodeRun("generated cuts", cuts)).empty()) return e;
    if (!(e = decodeRun("one frame per segment", bounds)).empty()) return e;
    if (stream.size() <= 3000 && !(e = decodeRun("byte by byte", everyByte(stream.size()))).empty()) return e;
  }

  // ---- statelessness across connections: ONE decoder object; first the longest frame of the stream without its last byte (a connection
  // that is dropped in the middle of a message: the fragment is abandoned with the receive buffer), then every frame on a connection of
  // its own (buffer from offset 0), shortest first.  Each must decode exactly as on a fresh object, i.e. to its own messages.
  bool reused = false;
  if (bounds.size() >= 1) {
    struct Fr { size_t begin, end, ev_begin, ev_end; };
    std::vector<Fr> frs; size_t at = 0, evi = 0;
    for (size_t i = 0, fi = 0; i < msgs.size(); ++fi) {
      size_t n = 1; if (msgs[i].batch >= 0) { n = 0; while (i + n < msgs.size() && msgs[i + n].batch == msgs[i].batch) ++n; }
      frs.push_back(Fr{at, bounds[fi], evi, evi + n}); at = bounds[fi] + strlen(kSeps[sep]); evi += n; i += n;
    }
    size_t longest = 0; for (size_t i = 1; i < frs.size(); ++i) if (frs[i].end - frs[i].begin > frs[longest].end - frs[longest].begin) longest = i;
    auto dec = mkProto(proto);
    if (log) TrafficLog::enable(*dec, "c14-dec");
    Recorder rec; rec.attach(*dec);
    dec->setSendCallback([](const void *, size_t) {});
    std::string frag = stream.substr(frs[longest].begin, frs[longest].end - frs[longest].begin - 1);
    if (frag.size() >= 2 && proto != P_PACKET) {
      FeedResult fr = feed(*dec, proto, frag, {});
      if (!fr.err.empty()) return std::string(kProtoName[proto]) + ", abandoned fragment: " + fr.err;
      if (!rec.evs.empty() || fr.status != 0) return std::string(kProtoName[proto]) + ": a frame without its last byte produced " + std::to_string(rec.evs.size()) + " callbacks / return " + std::to_string(fr.neg_ret);
      reused = true;
    }
    std::vector<size_t> order(frs.size()); for (size_t i = 0; i < order.size(); ++i) order[i] = i;
    std::stable_sort(order.begin(), order.end(), [&](size_t a, size_t b2) { return frs[a].end - frs[a].begin < frs[b2].end - frs[b2].begin; });
    for (size_t oi : order) {
      rec.evs.clear();
      std::string one = stream.substr(frs[oi].begin, frs[oi].end - frs[oi].begin);
      FeedResult fr = feed(*dec, proto, one, {});
      std::vector<Ev> want(expected.begin() + (long)frs[oi].ev_begin, expected.begin() + (long)frs[oi].ev_end);
      std::string pre = std::string(kProtoName[proto]) + ", frame " + std::to_string(oi) + " (" + std::to_string(one.size()) + " bytes) alone on a new connection, decoder object re-used after an abandoned fragment of " + std::to_string(frag.size()) + " bytes: ";
      if (!fr.err.empty()) return pre + fr.err;
      std::string d = diffEvs(want, rec.evs);
      if (fr.status != 0) return pre + "onRecvData returned " + std::to_string(fr.neg_ret);
      if (!d.empty()) return pre + d + " (a fresh decoder object delivers it)";
      if (proto != P_PACKET && fr.leftover != 0) return pre + std::to_string(fr.leftover) + " bytes left unconsumed";
    }
  }

  info.cls(kProtoName[proto]);
  info.cls_if(reused && bounds.size() >= 2, "decoder_object_reused_after_abandoned_fragment");
  bool has[4] = {false, false, false, false};
  for (auto &m : msgs) { has[m.kind - REQUEST] = true; }
  info.cls_if(has[0], "request_with_id"); info.cls_if(has[1], "notification"); info.cls_if(has[2], "result"); info.cls_if(has[3], "error");
  info.cls_if(msgs.size() >= 3, "messages>=3");
  info.cls_if(any_batch, "batch");
  info.cls_if(tricky_payload, "payload_string_with_quote_backslash_or_bracket");
  info.cls_if(tricky_method, "method_with_quote_backslash_or_bracket");
  info.cls_if(nonascii, "non_ascii_utf8"); info.cls_if(ctrl, "control_character");
  info.cls_if(edge_int, "int_at_or_beyond_int32_edge");
  info.cls_if(maxdepth >= 4, "depth>=4"); info.cls_if(maxdepth >= 6, "depth=6");
  info.cls_if(!spans.empty(), "tricky_string_in_stream");
  info.cls_if(cut_in_tricky, "cut_inside_tricky_string");
  info.cls_if(cut_in_header, "cut_inside_header");
  info.cls_if(sep != 0, "whitespace_between_messages");
  info.cls_if(log, "traffic_logging_on");
  info.cls_if(log && tl->lines >= msgs.size() && !msgs.empty(), "traffic_lines_logged");   // (vacuous if the libraries were built with a STATIC_LOG_LEVEL below TRACE)
  info.cls_if(stream.size() > 3000, "stream>3000_no_bytewise");
  info.nontrivial = proto != P_PACKET && cut_in_tricky;
  return "";
}

#ifndef VERIF_ENGINE_FUZZ
void genValue(Rng &r, std::vector<Op> &v, int depth, int &budget) {
  auto mk = [&v](int code, std::vector<int64_t> a) { Op o; o.code = code; o.a = std::move(a); v.push_back(std::move(o)); };
  auto str = [&](int code) {
    int n = (int)r.pick({{1, 0}, {3, 1}, {4, 3}, {2, 8}, {1, 20}});
    std::vector<int64_t> a; for (int i = 0; i < n; ++i) a.push_back(r.chance(2, 3) ? r.rng(0, 15) : r.rng(0, kNPieces - 1));
    mk(code, a);
  };
  --budget;
  int kind = (int)r.pick({{1, VNULL}, {1, VBOOL}, {3, VINT}, {1, VUINT}, {1, VDBL}, {6, VSTR}, {depth < 6 && budget > 0 ? 4 : 0, VARR}, {depth < 6 && budget > 0 ? 4 : 0, VOBJ}});
  switch (kind) {
    case VNULL: mk(VNULL, {}); break;
    case VBOOL: mk(VBOOL, {r.rng(0, 1)}); break;
    case VINT: mk(VINT, {r.pick({{2, 0}, {1, 1}, {1, -1}, {2, 2147483647ll}, {2, -2147483648ll}, {1, 2147483648ll}, {1, -2147483649ll}, {1, INT64_MAX}, {1, INT64_MIN}, {2, r.rng(-100000, 100000)}})}); break;
    case VUINT: mk(VUINT, {r.pick({{1, -1}, {1, INT64_MIN}, {1, 4294967295ll}, {1, 4294967296ll}})}); break;
    case VDBL: mk(VDBL, {r.rng(0, kNDoubles - 1)}); break;
    case VSTR: str(VSTR); break;
    default: {
      int n = (int)r.pick({{1, 0}, {3, 1}, {3, 2}, {2, 4}, {1, 8}});
      mk(kind, {n});
      for (int i = 0; i < n && budget > 0; ++i) { if (kind == VOBJ && r.chance(1, 2)) str(VKEY); genValue(r, v, depth + 1, budget); }
      break; }
  }
}

Scenario expand(uint64_t seed) {
  Rng r(seed);
  Scenario sc; auto &v = sc.ops;
  auto mk = [&v](int code, std::vector<int64_t> a) { Op o; o.code = code; o.a = std::move(a); v.push_back(std::move(o)); };
  int proto = (int)r.pick({{4, P_HEADER}, {6, P_RAW}, {2, P_PACKET}});
  mk(CFG, {proto, r.pick({{3, 0}, {1, 1}, {1, 2}, {1, 3}}), r.pick({{2, 0}, {1, 1}})});
  int nm = (int)r.pick({{2, 1}, {3, 2}, {3, 3}, {2, 5}, {1, 8}});
  auto id = [&]() { return r.pick({{4, r.rng(1, 9)}, {1, 0}, {1, -1}, {1, 2147483647ll}, {1, -2147483648ll}, {1, r.rng(10, 1000000)}}); };
  for (int i = 0; i < nm; ++i) {
    if (r.chance(1, 8)) mk(BATCH, {r.rng(0, 4)});
    int kind = (int)r.pick({{4, REQUEST}, {2, NOTIFY}, {4, RESULT}, {2, ERROR_}});
    if (kind == REQUEST) mk(REQUEST, {id()});
    else if (kind == NOTIFY) mk(NOTIFY, {});
    else if (kind == RESULT) mk(RESULT, {id()});
    else mk(ERROR_, {id(), r.pick({{2, -32601}, {1, -32000}, {1, 0}, {1, 1}, {1, 2147483647ll}, {1, -2147483648ll}}), r.rng(0, 1)});
    if (kind != RESULT && r.chance(1, 2)) {
      int n = (int)r.pick({{1, 0}, {3, 1}, {3, 3}, {1, 10}});
      std::vector<int64_t> a; for (int k = 0; k < n; ++k) a.push_back(r.chance(1, 2) ? r.rng(0, 15) : r.rng(0, kNPieces - 1));
      mk(METH, a);
    }
    if (kind != ERROR_ && r.chance(5, 6)) { int budget = (int)r.pick({{2, 3}, {3, 10}, {2, 30}, {1, 80}}); genValue(r, v, 1, budget); }
  }
  int nc = (int)r.pick({{1, 0}, {2, 1}, {3, 2}, {2, 4}, {1, 8}});
  for (int i = 0; i < nc; ++i) mk(CUT, {r.pick({{3, 0}, {5, 1}, {2, 2}, {1, 3}}), r.rng(0, 1 << 20), r.rng(0, 1 << 16)});
  return sc;
}
#endif

SubDef def = [] {
  SubDef d; d.name = "roundtrip_segmentation";
  d.op_names = {"cfg", "request", "notify", "result", "error", "meth", "null", "bool", "int", "uint", "dbl", "str", "arr", "obj", "key", "batch", "cut"};
  d.op_arity = {3, 1, 0, 1, 3, 3, 0, 1, 1, 1, 1, 3, 1, 1, 2, 1, 3};
  d.nt_rule = "stream protos: a generated cut falls inside a string literal that contains a bracket, a brace or an escaped quote";
  d.run = run;
#ifndef VERIF_ENGINE_FUZZ
  d.gen = [] { return seedGen(expand); };
#endif
  return d;
}();
VERIF_REGISTER(&def);
}  // namespace
