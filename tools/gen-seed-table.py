#!/usr/bin/env python3
"""Regenerate DESIGN.md section 7.3 (seeded changes) from seeded/*/*/meta.json."""
import json, glob
rows = []
for d in sorted(glob.glob('/verif/seeded/C*/*')):
    m = json.load(open(d + '/meta.json'))
    pid, v = d.split('/')[-2], d.split('/')[-1]
    cl = lambda x: (x if isinstance(x, str) else str(x))[:220].replace('\n', ' ').replace('|', '/')
    rows.append((pid, v, cl(m.get('summary', '')), cl(m.get('needs', '')), cl(m['check_result'])[:300]))
out = "### 7.3 Independently seeded changes (sub-agents that saw only the property text) and which check catches them\n\n"
out += ("Each change was produced in a scratch worktree by a sub-agent that was given only the property record, was confirmed here with "
        "`tools/confirm-seed` (tree builds, the module's unit tests pass with the change, the agent's demo FAILS with the change and PASSES "
        "without), then evaluated with `tools/eval-seed` (patch applied to /repo, quick tier, patch removed).  Files: "
        "`seeded/<id>/<A|B>/{patch.diff,demo.cpp,build.sh,meta.json}`.\n\n")
out += "| seed | what the change does | needs | result of `./check <id>` (quick) |\n|---|---|---|---|\n"
for r in rows:
    out += f"| {r[0]}/{r[1]} | {r[2]} | {r[3]} | {r[4]} |\n"
out += ("\nMissed at first and then caught after strengthening the check (the check was extended, never loosened): see the rows whose "
        "result starts with 'first MISSED'.\n\n")
p = '/verif/DESIGN.md'
s = open(p).read()
marker = '## Appendix A — false alarms corrected'
if '### 7.3 Independently seeded changes' in s:
    a = s.index('### 7.3 Independently seeded changes'); b = s.index(marker); s = s[:a] + out + s[b:]
else:
    b = s.index(marker); s = s[:b] + out + s[b:]
open(p, 'w').write(s)
print(len(rows), 'seeds')
